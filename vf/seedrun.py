"""Re-run a fixed E2 exploration in this process (whose PYTHONHASHSEED and id salt were chosen by the caller)
and print one SHA-256 over every transition's observation and successor state.  Used by C14: the digest must
not depend on the hash seed or on the rating ids."""
import hashlib
import json
import sys

from vf import core


def main():
    salt = int(sys.argv[1])
    depth = int(sys.argv[2]) if len(sys.argv) > 2 else 2
    core.load_repo()
    from vf import e2, spaces

    core.deterministic_ids(salt)
    h = hashlib.sha256()
    n = 0
    viol = 0
    for kind in spaces.KINDS:
        s = e2.Search(kind, "default", "seed")
        m, L = s.build(())
        init = s.state(m, L)[0]
        seen = {}
        frontier = [()]
        for level in range(depth):
            nxt = []
            for hist in frontier:
                for oi in range(len(s.ops)):
                    digest, obs, v, _ = s.step(hist, oi, init)
                    n += 1
                    viol += len(v)
                    h.update(repr((kind, hist, oi, digest, obs)).encode())
                    if digest is not None and digest not in seen:
                        seen[digest] = 1
                        nxt.append(hist + (oi,))
            frontier = nxt
    print(json.dumps({"digest": h.hexdigest(), "transitions": n, "invariant_violations": viol,
                      "hashseed": __import__("os").environ.get("PYTHONHASHSEED"), "salt": salt}))


if __name__ == "__main__":
    main()
