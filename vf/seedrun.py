"""Re-run a fixed E2 exploration in this process (whose PYTHONHASHSEED and id salt were chosen by the caller)
and print one SHA-256 over every transition's observation and successor state.  Used by C14: the digest must
not depend on the hash seed or on the rating ids."""
import hashlib
import json
import sys

from vf import core


def main():
    salt = int(sys.argv[1])
    depth = int(sys.argv[2]) if len(sys.argv) > 2 else 2
    core.load_repo()
    from vf import e2, spaces

    from vf import lib

    # each run has a different pre-history in its process: none / decoy models with other parameters / another decoy /
    # decoy + the classes explored in reverse order.  A stateless library produces the same digest in all of them.
    prelude = {1: "none", 2: "decoy x3", 3: "decoy x0.37", 4: "decoy x3, reverse class order"}.get(salt, "none")
    if salt == 2 or salt == 4:
        lib.decoy_prelude(force=True, factor=3.0)
    elif salt == 3:
        lib.decoy_prelude(force=True, factor=0.37)
    core.deterministic_ids(salt)
    n = 0
    viol = 0
    per_kind = {}
    for kind in (list(reversed(spaces.KINDS)) if salt == 4 else spaces.KINDS):
        h = hashlib.sha256()
        s = e2.Search(kind, "default", "seed")
        init = e2.snap_model(s.fresh()[0])
        seen = {}
        frontier = [()]
        for level in range(depth):
            nxt = []
            for hist in frontier:
                for oi in range(len(s.ops)):
                    digest, obs, v, _ = s.step(hist, oi, init)
                    n += 1
                    viol += len(v)
                    # what is compared across processes: the observation, the model and the league - not the module-globals
                    # snapshot that is part of the in-process state key (a pure memo cache may legally differ with history)
                    h.update(repr((kind, hist, oi, obs, s.last_public if digest is not None else None)).encode())
                    # which histories are expanded must not depend on process history either: deduplicate on the public
                    # state (model + league), not on the full in-process state key that includes module globals
                    pub = hashlib.blake2b(repr(s.last_public).encode(), digest_size=16).digest() if digest is not None else None
                    if pub is not None and pub not in seen:
                        seen[pub] = 1
                        nxt.append(hist + (oi,))
            frontier = nxt
        per_kind[kind] = h.hexdigest()
    total = hashlib.sha256("".join(per_kind[k] for k in spaces.KINDS).encode()).hexdigest()
    print(json.dumps({"digest": total, "per_class": per_kind, "transitions": n, "invariant_violations": viol,
                      "hashseed": __import__("os").environ.get("PYTHONHASHSEED"), "salt": salt, "prelude": prelude}))


if __name__ == "__main__":
    main()
