"""E3 - stateless schedule explorer for real threads (DESIGN §3-E3, Appendix B).

Worker threads run harness bodies (real API calls on one shared model).  sys.settrace is installed inside
each worker; every `line` (or `opcode`) event of a frame whose code lives in the openskill package, and every
thread end, is a scheduling point.  Exactly one thread is runnable at any time, so an execution is a function
of (first thread, deviation map).  Exploration = iterative preemption bounding."""
import copy
import math
import os
import pickle
import sys
import threading
import time

from vf import core, e2, spaces

PKG = None


def pkg_dir():
    global PKG
    if PKG is None:
        import openskill

        PKG = os.path.dirname(os.path.abspath(openskill.__file__)) + os.sep
    return PKG


class ReplayDivergence(Exception):
    pass


# --------------------------------------------------------------------------- scheduler-aware lock
_CURRENT = {"exe": None}
_REAL_LOCK = threading.Lock
_REAL_RLOCK = threading.RLock


class SchedLock:
    """Replacement for threading.Lock/RLock created by library code: acquiring a held lock is a blocking
    scheduling point instead of a real wait (which would hang the one-runnable-thread discipline)."""

    def __init__(self, reentrant=False):
        self.owner = None
        self.count = 0
        self.reentrant = reentrant

    def acquire(self, blocking=True, timeout=-1):
        exe = _CURRENT["exe"]
        tid = getattr(_TLS, "tid", None)
        if exe is None or tid is None:
            me = threading.get_ident()
            if self.owner is None or (self.reentrant and self.owner == me):
                self.owner = me
                self.count += 1
                return True
            raise core.HarnessError("SchedLock contended outside a controlled execution")
        while True:
            if self.owner is None or (self.reentrant and self.owner == tid):
                self.owner = tid
                self.count += 1
                return True
            if not blocking:
                return False
            exe.block_on(tid, self)

    def release(self):
        self.count -= 1
        if self.count == 0:
            self.owner = None
            exe = _CURRENT["exe"]
            if exe is not None:
                exe.unblock(self)

    __enter__ = acquire

    def __exit__(self, *a):
        self.release()

    def locked(self):
        return self.owner is not None


_TLS = threading.local()


def _lock_factory(real, reentrant):
    def make(*a, **k):
        f = sys._getframe(1)
        if f.f_code.co_filename.startswith(pkg_dir()):
            return SchedLock(reentrant)
        return real(*a, **k)

    return make


def install_lock_shim():
    """Locks created *by package code* become SchedLocks; everybody else keeps real locks."""
    if threading.Lock is _REAL_LOCK:
        threading.Lock = _lock_factory(_REAL_LOCK, False)
        threading.RLock = _lock_factory(_REAL_RLOCK, True)


def shim_existing_locks(model):
    """Locks created at import/construction time (module level, class level, on the model)."""
    lock_types = (type(_REAL_LOCK()), type(_REAL_RLOCK()))
    n = 0
    for name, mod in list(sys.modules.items()):
        if not (name == "openskill" or name.startswith("openskill.")) or mod is None:
            continue
        for k, v in list(vars(mod).items()):
            if isinstance(v, lock_types):
                setattr(mod, k, SchedLock(isinstance(v, lock_types[1])))
                n += 1
            elif isinstance(v, type) and getattr(v, "__module__", None) == name:
                for ck, cv in list(vars(v).items()):
                    if isinstance(cv, lock_types):
                        setattr(v, ck, SchedLock(isinstance(cv, lock_types[1])))
                        n += 1
    for k, v in list(getattr(model, "__dict__", {}).items()):
        if isinstance(v, lock_types):
            setattr(model, k, SchedLock(isinstance(v, lock_types[1])))
            n += 1
    return n


# --------------------------------------------------------------------------- one controlled execution
class Execution:
    def __init__(self, bodies, dev, first, gran):
        self.k = len(bodies)
        self.bodies = bodies
        self.dev = dev
        self.first = first
        self.gran = gran
        self.sems = [threading.Semaphore(0) for _ in bodies]
        self.done = [False] * self.k
        self.blocked = [None] * self.k
        self.helper = []  # per point: True if the frame's code lives in a shared helper module (common.py)
        self.trace = []  # running thread id at each point (>=0), thread-end points are ~tid (negative)
        self.alive = []  # bitmask of threads not finished (and not lock-blocked) at each point
        self.where = []  # (file, line, lasti) per point, only when record=True
        self.record = False
        self.results = [None] * self.k
        self.main = threading.Semaphore(0)
        self.diverged = None
        self.deadlock = False
        self.pkg = pkg_dir()
        self.mask = (1 << self.k) - 1
        self.untrace_after = None  # index of the last scheduling decision that can matter (set by explore for 2-thread, budget-exhausted runs)
        self.untraced = False

    # ---- scheduling
    def _mask(self):
        m = 0
        for j in range(self.k):
            if not self.done[j] and self.blocked[j] is None:
                m |= 1 << j
        self.mask = m
        return m

    def point(self, tid, frame):
        i = len(self.trace)
        self.trace.append(tid)
        self.alive.append(self._mask())
        self.helper.append(frame.f_code.co_filename.endswith("common.py"))
        if self.record:
            self.where.append((frame.f_code.co_filename[len(self.pkg):], frame.f_lineno, frame.f_lasti))
        nxt = self.dev.get(i, tid)
        if self.untrace_after is not None and i >= self.untrace_after:
            # the last decision of this schedule: with two threads and the preemption budget used up nothing after it can be enumerated,
            # so the rest of the execution (the other thread to its end, then this one) runs untraced - same schedule, no per-line cost
            self.untraced = True
        if nxt != tid:
            if self.done[nxt] or self.blocked[nxt] is not None:
                self.diverged = f"point {i}: schedule wants thread {nxt} which is not enabled"
                raise ReplayDivergence(self.diverged)
            self.sems[nxt].release()
            self.sems[tid].acquire()

    def block_on(self, tid, lock):
        """tid cannot proceed until `lock` is released: hand the processor to another enabled thread."""
        self.blocked[tid] = lock
        i = len(self.trace)
        self.trace.append(tid)
        self.alive.append(self._mask())
        self.helper.append(False)
        if self.record:
            self.where.append(("<lock-wait>", 0, 0))
        m = self._mask()
        if m == 0:
            self.deadlock = True
            self.main.release()
            self.sems[tid].acquire()  # never returns in this execution
            return
        nxt = self.dev.get(i)
        if nxt is None or not (m >> nxt) & 1:
            nxt = min(j for j in range(self.k) if (m >> j) & 1)
        self.sems[nxt].release()
        self.sems[tid].acquire()

    def unblock(self, lock):
        for j in range(self.k):
            if self.blocked[j] is lock:
                self.blocked[j] = None
        self._mask()

    def _end(self, tid):
        self.done[tid] = True
        i = len(self.trace)
        self.trace.append(~tid)
        m = self._mask()
        self.alive.append(m)
        self.helper.append(False)
        if self.record:
            self.where.append(("<thread-end>", 0, 0))
        if m == 0:
            if any(not d for d in self.done):
                self.deadlock = True
            self.main.release()
            return
        nxt = self.dev.get(i)
        if nxt is None:
            nxt = min(j for j in range(self.k) if (m >> j) & 1)
        elif not (m >> nxt) & 1:
            self.diverged = f"end point {i}: schedule wants thread {nxt} which is not enabled"
            nxt = min(j for j in range(self.k) if (m >> j) & 1)
        self.sems[nxt].release()

    def _run(self, tid):
        self.sems[tid].acquire()
        _TLS.tid = tid
        gran = self.gran
        pkg = self.pkg
        point = self.point
        trace_append = self.trace.append
        alive_append = self.alive.append
        helper_append = self.helper.append
        hflag = {}
        trace = self.trace
        dev = self.dev
        exe = self
        fast = not self.record

        def local(frame, event, arg):
            if exe.untraced:
                sys.settrace(None)
                return None
            if event == gran:
                if fast and len(trace) not in dev:
                    trace_append(tid)
                    alive_append(exe.mask)
                    co = frame.f_code
                    h = hflag.get(co)
                    if h is None:
                        h = hflag[co] = co.co_filename.endswith("common.py")
                    helper_append(h)
                else:
                    point(tid, frame)
            return local

        def tr(frame, event, arg):
            if exe.untraced:
                sys.settrace(None)
                return None
            if frame.f_code.co_filename.startswith(pkg):
                if gran == "opcode":
                    frame.f_trace_opcodes = True
                    frame.f_trace_lines = False
                return local
            return None

        sys.settrace(tr)
        try:
            self.results[tid] = ("ok", self.bodies[tid]())
        except ReplayDivergence:
            self.results[tid] = ("diverged",)
        except BaseException as e:  # library exception inside a body is an observation
            self.results[tid] = ("exc", type(e).__name__, str(e)[:200])
        finally:
            sys.settrace(None)
            _TLS.tid = None
            self._end(tid)

    def run(self):
        _CURRENT["exe"] = self
        ts = [threading.Thread(target=self._run, args=(i,), daemon=True) for i in range(self.k)]
        for t in ts:
            t.start()
        self.sems[self.first].release()
        if not self.main.acquire(timeout=120):
            _CURRENT["exe"] = None
            raise core.HarnessError("controlled execution did not finish within 120 s")
        if not self.deadlock:
            for t in ts:
                t.join(10)
        _CURRENT["exe"] = None
        return self


# --------------------------------------------------------------------------- harnesses
def _bits(x):
    if isinstance(x, float):
        return x.hex()
    if isinstance(x, (list, tuple)):
        return [_bits(y) for y in x]
    if hasattr(x, "mu") and hasattr(x, "sigma"):
        return [_bits(x.mu), _bits(x.sigma)]
    return repr(x)


_FILL = {"n": 0}


def _pressure(cls, b, calls, what):
    """Cache pressure: `calls` sequential, untraced calls on ANOTHER model object of the same class and parameters with values never
    used before in this process, so that any bounded memo in the library (functools.lru_cache defaults to 128 entries, hand-rolled
    ones to a few hundred) has evicted the harness bodies' own entries and is full: the bodies then miss, insert and EVICT inside
    the explored execution, which is where an unlocked eviction / two-step replacement can be preempted."""
    fm = cls()
    r = fm.rating
    for _ in range(calls):
        _FILL["n"] += 1
        d = _FILL["n"] * 1e-7 * b
        if what == "rate":
            g = [[r(6 * b + d, 2 * b + d)], [r(5 * b - d, 2 * b - d)]]
            fm.rate(g, ranks=[0, 1] if _FILL["n"] % 2 else [0, 0])
        else:
            g = [[r(6 * b + d, 2 * b + d)], [r(5 * b - d, b - d)], [r(4 * b + d, 3 * b + d)]]
            fm.predict_draw(g)
            fm.predict_win(g)


def harness(name, kind):
    """-> factory() -> (model, [bodies]); every call builds fresh objects with the same values.
    A name ending in "P<n>" (H14P140) is the same harness under cache pressure: n filler calls before every execution."""
    cls = spaces.model_class(kind)
    b = spaces.BETA0
    s = 0.01 * b
    fill = 0
    if "P" in name:
        name, f = name.split("P")
        fill = int(f)

    def mk():
        if fill:
            _pressure(cls, b, fill, "rate" if name in ("H14", "H1", "H8") else "predict")
        core.deterministic_ids(7)
        ls_model = name == "H2"
        if name == "H11":  # user-supplied gamma (the callback itself is user code, not a scheduling point) + large kappa: the floor engages
            m = cls(gamma=lambda c, k, mu, ss, team, rank: 3.0 * math.sqrt(ss) / c * (1 + rank), kappa=0.3)
        else:
            m = cls(limit_sigma=True) if ls_model else cls()
        r = m.rating
        g0 = [[r(7 * b, s, "a0")], [r(5 * b, s, "a1")]]
        g1 = [[r(6.5 * b, s, "b0")], [r(5.5 * b, 2 * b, "b1")]]
        g2 = [[r(6 * b, s, "c0")], [r(6 * b, 2 * b, "c1")], [r(4 * b, b, "c2")]]
        g3 = [[r(7 * b, s, "d0"), r(5 * b, 2 * b, "d1")], [r(6 * b, s, "d2")], [r(5 * b, b, "d3")]]
        if name == "H1":
            bodies = [lambda: _bits(m.rate(g0, tau=0.5 * b, limit_sigma=True)), lambda: _bits(m.rate(g1))]
        elif name == "H2":
            bodies = [lambda: _bits(m.rate(g0, limit_sigma=False)), lambda: _bits(m.rate(g1))]
        elif name == "H3":
            bodies = [lambda: _bits(m.rate(g0, ranks=[2, 1])), lambda: _bits(m.rate(g1, scores=[1, 1]))]
        elif name == "H4":
            bodies = [lambda: _bits(m.rate(g3, ranks=[1, 1, 2])),
                      lambda: [_bits(m.predict_win(g2)), _bits(m.predict_draw(g2)), _bits(m.predict_rank(g2))]]
        elif name == "H5":
            bodies = [lambda: _bits(m.rate(g0, limit_sigma=True)), lambda: _bits(m.rate(g1, tau=0)),
                      lambda: _bits(m.predict_rank(g2))]
        elif name == "H9":  # a REJECTED call in one thread (exception swallowed by the caller), a valid call in the other
            def rejected():
                out = []
                for bad in (lambda: m.rate(g0, ranks=[1]), lambda: m.rate(g0, ranks=[0, 1], scores=[1, 0]), lambda: m.predict_win([g0[0]])):
                    try:
                        bad()
                        out.append("returned")
                    except (TypeError, ValueError) as e:
                        out.append(type(e).__name__)
                return out
            bodies = [rejected, lambda: _bits(m.rate(g1, limit_sigma=True))]
        elif name == "H8":  # ties in BOTH threads (both go through vt/wt and the tie bookkeeping at the same time)
            bodies = [lambda: _bits(m.rate(g0, ranks=[1, 1])), lambda: _bits(m.rate(g1, scores=[0, 0]))]
        elif name == "H7":  # predictors against predictors (scratch data of the pairwise loops)
            bodies = [lambda: [_bits(m.predict_win(g2)), _bits(m.predict_rank(g2))],
                      lambda: [_bits(m.predict_win(g3)), _bits(m.predict_draw(g3)), _bits(m.predict_rank(g3))]]
        elif name == "H10":  # two multi-team games at once: >= 3 teams, ties, multi-player team, out-of-order ranks, clamp on one side
            bodies = [lambda: _bits(m.rate(g3, ranks=[1, 0, 1], limit_sigma=True)), lambda: _bits(m.rate(g2, scores=[3, 3, 1]))]
        elif name == "H11":  # custom gamma + kappa floor on both sides, multi-player teams
            g4 = [[r(7 * b, 2 * b, "e0"), r(5 * b, b, "e1")], [r(6 * b, 3 * b, "e2"), r(6 * b, s, "e3")]]
            bodies = [lambda: _bits(m.rate(g3, ranks=[2, 0, 1])), lambda: _bits(m.rate(g4, ranks=[1, 0], tau=0.0))]
        elif name == "H12":  # construction, copying and comparison of ratings from two threads: values as solo, ids distinct overall
            def build(tag):
                def body():
                    made = [m.rating(), m.rating(1.5 * b, 0.5 * b, tag), m.create_rating([2.0 * b, 0.25 * b], tag + "c"), m.rating(name=tag + "d")]
                    cp = copy.deepcopy([made[:2]])
                    made.append(m.rating(0.5 * b, b, tag + "z"))  # the last construction of the body is one whose id is kept (a copy's is overwritten)
                    obs = [_bits(x) for x in made] + [[x.name for x in made], _bits(cp), [y.id == x.id for y, x in zip(cp[0], made)],
                                                       made[1] < made[2], made[0] == made[3], _bits(sorted(made)), _bits(made[1].ordinal())]
                    return {"obs": obs, "ids": [x.id for x in made]}
                return body
            bodies = [build("p"), build("q")]
        elif name == "H13":  # predictors on two games of the SAME shape and player count (the same draw-margin / table entries are
            # looked up - and, from a cold start, created - by both threads), opposite call order
            g5 = [[r(5 * b, b, "f0")], [r(7 * b, s, "f1")], [r(6 * b, 3 * b, "f2")]]
            bodies = [lambda: [_bits(m.predict_draw(g2)), _bits(m.predict_rank(g2)), _bits(m.predict_win(g2))],
                      lambda: [_bits(m.predict_rank(g5)), _bits(m.predict_draw(g5)), _bits(m.predict_win(g5))]]
        elif name == "H14":  # IDENTICAL games in both threads (same values, other objects): a value-keyed memo in the shared helpers is
            # hit by one thread with the key the other thread is in the middle of writing
            def twin(tag):
                # a drawn game, then a 3-team game with a tie and two decisive pairs whose outcome is given out of listing order:
                # several DIFFERENT argument tuples reach the shared helpers within one thread (so a last-call memo misses) and the
                # SAME tuples, the same outcome vectors and the same team counts occur in both threads (so one thread can hit what
                # the other is in the middle of writing - or, from a cold start, creating)
                ga = [[r(6 * b, 2 * b, tag + "0")], [r(5 * b, 2 * b, tag + "1")]]
                gc = [[r(7 * b, b, tag + "2")], [r(5 * b, 2 * b, tag + "3"), r(4 * b, s, tag + "4")], [r(6 * b, 3 * b, tag + "5")]]
                # a drawn 1v1 (one tie pair), then three teams with the outcome out of listing order: a second tie pair and two decisive pairs
                return lambda: [_bits(m.rate(ga, scores=[2, 2])), _bits(m.rate(gc, ranks=[1, 0, 1]))]
            bodies = [twin("x"), twin("y")]
        elif name == "H15":  # identical 3-team games through the three predictors in both threads
            def twinp(tag):
                gp = [[r(6 * b, 2 * b, tag + "0")], [r(5 * b, b, tag + "1"), r(4 * b, s, tag + "2")], [r(7 * b, 3 * b, tag + "3")]]
                return lambda: [_bits(m.predict_win(gp)), _bits(m.predict_draw(gp))]  # predict_rank shares its pair loop with predict_win; H13 has all three
            bodies = [twinp("x"), twinp("y")]
        elif name == "H6":  # same-shaped concurrent updates with opposite outcomes + per-call tau on both
            bodies = [lambda: _bits(m.rate(g0, ranks=[0, 1], tau=0.25 * b)), lambda: _bits(m.rate(g1, ranks=[1, 0], tau=b))]
        else:
            raise KeyError(name)
        return m, bodies

    def probe():
        """Sequential calls made AFTER the threads have finished, on another model object and fresh ratings, with MORE teams than any
        harness body uses: a race that corrupts shared state without disturbing the racing calls themselves (a lazily grown table
        with a duplicated row, a memo entry stored under the wrong key) shows up here."""
        core.deterministic_ids(11)
        pm = cls()
        r = pm.rating
        g4 = [[r(6 * b, 2 * b)], [r(5 * b, b), r(7 * b, s)], [r(4 * b, 3 * b)], [r(6.5 * b, 0.5 * b)]]
        g5 = [[r((4 + i) * b, (0.5 + 0.5 * i) * b)] for i in range(5)]
        out = [_bits(pm.predict_win(g5)), _bits(pm.predict_draw(g4)), _bits(pm.predict_rank(g5)), _bits(pm.rate(g4, ranks=[2, 0, 1, 1]))]
        return out

    mk.probe = probe
    return mk


HARNESSES = ["H1", "H2", "H3", "H4", "H5", "H6", "H7", "H8", "H9", "H10", "H11", "H12", "H13", "H14", "H15"]


def solo(mk):
    """Each body alone on a fresh model (the serial specification), and the initial model snapshot."""
    m, bodies = mk()
    snap0 = e2.snap_model(m)
    out = []
    for i in range(len(bodies)):
        mi, bi = mk()
        try:
            out.append(("ok", bi[i]()))
        except Exception as e:
            out.append(("exc", type(e).__name__, str(e)[:200]))
    if getattr(mk, "probe", None) is not None:
        try:
            mk.probe_expected = ("ok", mk.probe())
        except Exception as e:
            mk.probe_expected = ("exc", type(e).__name__, str(e)[:200])
    return snap0, out


def run_once(mk, dev, first, gran, record=False, untrace_after=None):
    m, bodies = mk()
    shim_existing_locks(m)
    ex = Execution(bodies, dev, first, gran)
    ex.record = record
    ex.untrace_after = untrace_after
    ex.run()
    ex.model_snap = e2.snap_model(m)
    ex.probe = None
    if getattr(mk, "probe", None) is not None and not ex.deadlock:
        try:
            ex.probe = ("ok", mk.probe())
        except Exception as e:
            ex.probe = ("exc", type(e).__name__, str(e)[:200])
    return ex


# --------------------------------------------------------------------------- cold start: every execution in a pristine child
class _Res:
    """What explore()/check() need from an execution that ran in a forked child."""


def in_child(fn):
    """Run fn() in a forked child of THIS process and return its (pickled) result.  Used by the cold-start exploration: the
    parent has imported the package and never used it, so every child starts from import-time module / class state and the
    lazily initialised parts of the library (first-use caches, tables, singletons) are initialised INSIDE the explored
    execution - which is where a two-step publication or a check-then-act window on them can be preempted."""
    r, w = os.pipe()
    pid = os.fork()
    if pid == 0:
        code = 0
        try:
            os.close(r)
            try:
                payload = pickle.dumps(("ok", fn()))
            except BaseException as e:  # harness trouble inside the child: report, never hang the parent
                payload = pickle.dumps(("err", f"{type(e).__name__}: {e}"))
            with os.fdopen(w, "wb") as f:
                f.write(payload)
        except BaseException:
            code = 3
        finally:
            os._exit(code)
    os.close(w)
    with os.fdopen(r, "rb") as f:
        data = f.read()
    os.waitpid(pid, 0)
    if not data:
        raise core.HarnessError("cold-start child returned nothing")
    tag, val = pickle.loads(data)
    if tag != "ok":
        raise core.HarnessError("cold-start child failed: " + str(val))
    return val


def run_once_cold(mk, dev, first, gran, record=False, untrace_after=None):
    def job():
        ex = run_once(mk, dev, first, gran, record=record, untrace_after=untrace_after)
        return {"trace": ex.trace, "alive": ex.alive, "helper": ex.helper, "where": ex.where, "results": ex.results,
                "diverged": ex.diverged, "deadlock": ex.deadlock, "model_snap": ex.model_snap, "probe": ex.probe}

    res = _Res()
    res.__dict__.update(in_child(job))
    return res


def solo_cold(mk):
    def one(i):
        def job():
            m, bodies = mk()
            if i < 0:
                return e2.snap_model(m), len(bodies)
            try:
                return ("ok", bodies[i]())
            except Exception as e:
                return ("exc", type(e).__name__, str(e)[:200])
        return job

    snap0, k = in_child(one(-1))
    if getattr(mk, "probe", None) is not None:
        def pj():
            try:
                return ("ok", mk.probe())
            except Exception as e:
                return ("exc", type(e).__name__, str(e)[:200])
        mk.probe_expected = in_child(pj)
    return snap0, [in_child(one(i)) for i in range(k)]


class Unstable(Exception):
    """The schedule could not be replayed as recorded: the point sequence of the threads changed between two executions.
    The harness owns ids, clocks and scheduling, so this happens only when the library's control flow depends on what
    earlier executions left behind in the process (a module-level memo that hits the second time).  Not a verdict by
    itself: the execution is skipped and counted (evidence: e3_unstable)."""


def check(ex, snap0, solo_res):
    msgs = []
    if ex.diverged:
        raise Unstable(ex.diverged)
    if ex.deadlock:
        msgs.append("deadlock: no thread enabled while some thread has not finished")
        return msgs
    ids = []
    for t, (got, want) in enumerate(zip(ex.results, solo_res)):
        if got[0] == "ok" and isinstance(got[1], dict) and "ids" in got[1] and want[0] == "ok":
            ids += got[1]["ids"]  # ids are compared for uniqueness across threads, not with the solo run (they are fresh by design)
            got, want = ("ok", got[1]["obs"]), ("ok", want[1]["obs"])
        if got != want:
            msgs.append(f"thread {t} returned {got} under this schedule but {want} when run alone on a fresh model")
    want_probe = getattr(ex, "probe_expected", None)
    if want_probe is not None and getattr(ex, "probe", None) is not None and ex.probe != want_probe:
        msgs.append(f"after the threads finished, sequential calls on another model object return {str(ex.probe)[:300]} instead of {str(want_probe)[:300]}: "
                    "the interleaving left shared (module / class level) state behind that changes later results")
    if len(set(ids)) != len(ids):
        msgs.append(f"rating ids are not unique across the threads: {len(ids) - len(set(ids))} duplicate(s) among {len(ids)} ratings created concurrently")
    if ex.model_snap != snap0:
        msgs.append("model attributes after the concurrent calls differ from the initial ones: " + e2.diff_snap(snap0, ex.model_snap))
    return msgs


def baseline(mk, gran, k):
    """Warm up (CPython 3.12 instruments code objects for opcode events lazily) and prove the harness owns its
    nondeterminism: two consecutive runs of one non-trivial schedule must produce identical point traces."""
    last = None
    stable = False
    for attempt in range(6):  # the first runs warm up interpreter instrumentation and any (legal) memo in the library
        ex = run_once(mk, {}, 0, gran, record=True)
        sig = (tuple(ex.trace), tuple(ex.where))
        if last is not None and sig == last:
            stable = True
            break
        last = sig
    # a non-trivial schedule twice: preempt thread 0 in the middle of its run
    n0 = sum(1 for t in ex.trace if t == 0)
    if stable and n0 > 3 and k > 1:
        dev = {n0 // 2: 1}
        stable = False
        prev = None
        for attempt in range(4):
            a = run_once(mk, dev, 0, gran, record=True)
            cur = (a.trace, a.where, a.results)
            if prev is not None and cur == prev:
                stable = True
                break
            prev = cur
    ex.stable = stable
    return ex


def explore(mk, gran, bound, shard=(0, 1), max_exec=None, end_choices="all", only_helper=False, cold=False):
    """end_choices: "all" = at every thread end every live thread may continue (free choice, explored in combination with the
    preemptions); "serial" = free thread-end choices are explored only in executions without preemption (all serial orders),
    preempted executions continue with the lowest live thread (used by the quick tier for the 3-thread harness).
    only_helper: preemptions are placed only at points whose frame belongs to a shared helper module (common.py) - the
    functions all five model files call and the natural home of module-level scratch state; this keeps b <= 2 affordable
    on every change (a few thousand executions) while the unrestricted b <= 2 search runs in the thorough tier."""
    """Iterative preemption bounding.  Returns dict(executions per bound, points, outcomes, violations)."""
    if cold:
        # cold start (see in_child): this process must not have run any package code beyond the import; line granularity only
        # (CPython instruments code objects for opcode events lazily, which is interpreter state a fork does not reset)
        if gran != "line":
            raise core.HarnessError("cold-start exploration is defined for line granularity")
        run = run_once_cold
        snap0, solo_res = solo_cold(mk)
        k = len(solo_res)
        a, b_ = run(mk, {}, 0, gran, record=True), run(mk, {}, 0, gran, record=True)
        base = a
        base.stable = (a.trace, a.where, a.results) == (b_.trace, b_.where, b_.results)
    else:
        run = run_once
        m, bodies = mk()
        k = len(bodies)
        snap0, solo_res = solo(mk)
        base = baseline(mk, gran, k)
    res = {"executions": [0] * (bound + 1), "points": len(base.trace), "outcomes": {}, "violations": [],
           "capped": False, "threads": k, "points_per_thread": [sum(1 for t in base.trace if t == j) for j in range(k)],
           "unstable": 0, "baseline_stable": bool(getattr(base, "stable", True))}
    sk, sparts = shard
    total = 0

    def account(ex, dev, first, cost):
        key = repr([(r[0], r[1]["obs"]) if (r and r[0] == "ok" and isinstance(r[1], dict) and "obs" in r[1]) else r for r in ex.results])
        res["outcomes"][key] = res["outcomes"].get(key, 0) + 1
        res["executions"][cost] += 1
        ex.probe_expected = getattr(mk, "probe_expected", None)
        try:
            msgs = check(ex, snap0, solo_res)
        except Unstable:
            res["unstable"] += 1
            return
        if msgs and len(res["violations"]) < 5:
            res["violations"].append({"dev": {str(a): b_ for a, b_ in dev.items()}, "first": first, "msgs": msgs, "cost": cost})
        elif msgs:
            res["violations_more"] = res.get("violations_more", 0) + 1

    counter = [0]
    for first in range(k):
        e0 = run(mk, {}, first, gran)
        if sk == 0:
            account(e0, {}, first, 0)
        stack = [(e0, {}, 0, -1)]
        while stack:
            ex, dev, cost, last = stack.pop()
            for i in range(last + 1, len(ex.trace)):
                running = ex.trace[i]
                alive = ex.alive[i]
                if running >= 0:
                    # a thread at a line/opcode point: switching away from it is a preemption
                    ncost = cost + 1
                    default = running
                    if only_helper and not ex.helper[i]:
                        continue  # restricted search: preempt only inside the shared helper modules (common.py)
                else:
                    ncost = cost  # thread end: choosing who continues is free
                    default = min(j for j in range(k) if (alive >> j) & 1) if alive else None
                    if end_choices == "serial" and cost > 0:
                        continue
                if ncost > bound or default is None:
                    continue
                for u in range(k):
                    if u == default or not (alive >> u) & 1:
                        continue
                    if not dev:  # top-level alternative: shard here
                        counter[0] += 1
                        if counter[0] % sparts != sk:
                            continue
                    if max_exec is not None and total >= max_exec:
                        res["capped"] = True
                        return res
                    nd = dict(dev)
                    nd[i] = u
                    # two threads and no budget left after this deviation: nothing behind it will be enumerated
                    e1 = run(mk, nd, first, gran, untrace_after=(i if (k == 2 and ncost >= bound and running >= 0) else None))
                    total += 1
                    account(e1, nd, first, ncost)
                    stack.append((e1, nd, ncost, i))
    return res


# --------------------------------------------------------------------------- conflict census
def census(mk, body_index):
    """Solo run of one body at opcode granularity; after every point the shared domain (model + module
    globals) is snapshotted; every change is a write to shared state, logged with file:line."""
    m, bodies = mk()
    pkg = pkg_dir()
    writes = []
    state = {"prev": (e2.snap_model(m), e2.snap_globals()), "loc": None, "points": 0}

    def local(frame, event, arg):
        if event == "opcode":
            cur = (e2.snap_model(m), e2.snap_globals())
            state["points"] += 1
            if cur != state["prev"]:
                writes.append({"at": state["loc"], "model_changed": cur[0] != state["prev"][0], "globals_changed": cur[1] != state["prev"][1]})
                state["prev"] = cur
            state["loc"] = f"{frame.f_code.co_filename[len(pkg):]}:{frame.f_lineno}"
        return local

    def tr(frame, event, arg):
        if frame.f_code.co_filename.startswith(pkg):
            frame.f_trace_opcodes = True
            frame.f_trace_lines = False
            return local
        return None

    def runner():
        sys.settrace(tr)
        try:
            bodies[body_index]()
        finally:
            sys.settrace(None)

    for _ in range(2):  # first pass warms the instrumentation up
        m, bodies = mk()
        writes.clear()
        state.update(prev=(e2.snap_model(m), e2.snap_globals()), loc=None, points=0)
        t = threading.Thread(target=runner)
        t.start()
        t.join()
        cur = (e2.snap_model(m), e2.snap_globals())
        if cur != state["prev"]:
            writes.append({"at": state["loc"], "model_changed": cur[0] != state["prev"][0], "globals_changed": cur[1] != state["prev"][1]})
    return {"points": state["points"], "writes": list(writes)}


# --------------------------------------------------------------------------- free-running pass (supporting only)
def free_run(mk, iterations):
    snap0, solo_res = solo(mk)
    old = sys.getswitchinterval()
    sys.setswitchinterval(1e-6)
    bad = []
    try:
        for it in range(iterations):
            m, bodies = mk()
            results = [None] * len(bodies)
            barrier = threading.Barrier(len(bodies))

            def w(i):
                barrier.wait()
                try:
                    results[i] = ("ok", bodies[i]())
                except Exception as e:
                    results[i] = ("exc", type(e).__name__, str(e)[:200])

            ts = [threading.Thread(target=w, args=(i,)) for i in range(len(bodies))]
            for t in ts:
                t.start()
            for t in ts:
                t.join()
            if results != solo_res or e2.snap_model(m) != snap0:
                bad.append(it)
    finally:
        sys.setswitchinterval(old)
    return bad
