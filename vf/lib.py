"""Thin adapters around the real public API (R2).  Everything that touches openskill goes through here."""
import math

from vf import spaces
from vf.core import hx, unhx


def ratings(model, game, names=None):
    """Fresh rating objects for a value game (R9)."""
    if names is None:
        return [[model.rating(m, s) for (m, s) in team] for team in game]
    return [[model.rating(m, s, names[i][j]) for j, (m, s) in enumerate(team)] for i, team in enumerate(game)]


def values(result):
    return [[(p.mu, p.sigma) for p in team] for team in result]


def rate(model, game, **kw):
    """One real rate() call on fresh ratings; returns [[(mu, sigma)]] of the result."""
    return values(model.rate(ratings(model, game), **kw))


def all_finite(vals):
    return all(math.isfinite(m) and math.isfinite(s) for team in vals for (m, s) in team)


def flat(vals):
    return [x for team in vals for p in team for x in p]


def cfg_case(cfg):
    return {"cfg": cfg.name}


def case_game(kind, cfg, game, **more):
    """JSON-able description of one (model, config, game) case, floats as hex."""
    d = {"kind": kind, "cfg": cfg.name if hasattr(cfg, "name") else cfg,
         "game": [[[hx(m), hx(s)] for (m, s) in team] for team in game]}
    d.update(more)
    return d


def uncase_game(case):
    cfg = spaces.config(case["cfg"])
    game = [[(unhx(m), unhx(s)) for (m, s) in team] for team in case["game"]]
    return case["kind"], cfg, game


def close(a, b, rel, scale=0.0):
    return abs(a - b) <= rel * max(abs(a), abs(b), scale)
