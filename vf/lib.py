"""Thin adapters around the real public API (R2).  Everything that touches openskill goes through here."""
import math

from vf import spaces
from vf.core import hx, unhx


def ratings(model, game, names=None):
    """Fresh rating objects for a value game (R9)."""
    if names is None:
        return [[model.rating(m, s) for (m, s) in team] for team in game]
    return [[model.rating(m, s, names[i][j]) for j, (m, s) in enumerate(team)] for i, team in enumerate(game)]


def values(result):
    return [[(p.mu, p.sigma) for p in team] for team in result]


class ShapeError(Exception):
    """rate() returned something that does not have the nesting of its argument (a library violation, reported by
    whichever check made the call)."""


def rate(model, game, **kw):
    """One real rate() call on fresh ratings; returns [[(mu, sigma)]] of the result."""
    out = model.rate(ratings(model, game), **kw)
    if (not isinstance(out, list) or len(out) != len(game)
            or any(not isinstance(T, list) or len(T) != len(G) for T, G in zip(out, game))):
        got = [len(T) if isinstance(T, list) else type(T).__name__ for T in out] if isinstance(out, list) else type(out).__name__
        raise ShapeError(f"result has team sizes {got}, the argument has {[len(G) for G in game]}")
    return values(out)


def all_finite(vals):
    return all(math.isfinite(m) and math.isfinite(s) for team in vals for (m, s) in team)


def flat(vals):
    return [x for team in vals for p in team for x in p]


def cfg_case(cfg):
    return {"cfg": cfg.name}


def case_game(kind, cfg, game, **more):
    """JSON-able description of one (model, config, game) case, floats as hex."""
    d = {"kind": kind, "cfg": cfg.name if hasattr(cfg, "name") else cfg,
         "game": [[[hx(m), hx(s)] for (m, s) in team] for team in game]}
    d.update(more)
    return d


def uncase_game(case):
    cfg = spaces.config(case["cfg"])
    game = [[(unhx(m), unhx(s)) for (m, s) in team] for team in case["game"]]
    return case["kind"], cfg, game


def close(a, b, rel, scale=0.0):
    return abs(a - b) <= rel * max(abs(a), abs(b), scale)


def ratings_aliased(model, game):
    """Like ratings(), but teams with identical values are ONE list object placed in several slots (legal for the
    predictors, which do not modify anything).  Returns None when the game has no duplicate team."""
    seen = {}
    out = []
    dup = False
    for team in game:
        key = tuple(team)
        if key in seen:
            dup = True
        else:
            seen[key] = [model.rating(m, s) for (m, s) in team]
        out.append(seen[key])
    return out if dup else None


_DECOY_DONE = [False]


def decoy_prelude(force=False, factor=3.0):
    """Run once per worker process before anything else: every operation of every class on a model with
    DIFFERENT parameters, over the team counts / player counts the checks use.  A process-global cache keyed by
    too little (player count, team count, positions ...) is thereby filled with values that are wrong for every
    configuration the checks use, so the reference / differential oracles see it.  Correct (stateless) code is
    unaffected."""
    if _DECOY_DONE[0] and not force:
        return
    _DECOY_DONE[0] = True
    b = factor * spaces.BETA0 + 0.123
    shapes = [(1,) * n for n in range(2, 9)] + [(2, 2), (1, 2), (2, 1), (3, 3), (1, 3), (3, 1), (2, 2, 2), (1, 2, 1), (2, 1, 2), (8,) * 8, (16, 16),
              (8, 1, 8, 1, 8, 1, 8, 1), (1, 2, 3, 4, 5, 6, 7, 8), (16,) * 3, (16,) * 8, (2, 3), (3, 2), (1, 1, 2), (2, 2, 1), (2, 1, 1), (1, 2, 2)]
    for kind in spaces.KINDS:
        try:
            m = spaces.model_class(kind)(mu=5 * b, sigma=1.7 * b, beta=b, kappa=3e-3, tau=0.4 * b)
            for sh in shapes:
                g = [[(5 * b + 0.3 * i * b, 1.1 * b)] * sz for i, sz in enumerate(sh)]
                m.predict_win(ratings(m, g))
                m.predict_draw(ratings(m, g))
                m.predict_rank(ratings(m, g))
                if sum(sh) <= 12:
                    m.rate(ratings(m, g))
                    m.rate(ratings(m, g), ranks=[(i * 2) % len(sh) for i in range(len(sh))], tau=0.1 * b, limit_sigma=True)
        except Exception:
            pass  # a failing library call is reported by the checks proper, not by the prelude
