"""Cold-start schedule exploration in a pristine process (E3, cold mode).

    python -m vf.coldrun explore <harness> <kind> <bound>          -> one JSON line with the exploration result
    python -m vf.coldrun replay  <harness> <kind> <first> <dev-json> -> one JSON line with the messages of that one schedule

This process imports the package (lock shim first) and never calls into it; every controlled execution, every solo run and
every baseline run happens in a forked child, so each one starts from import-time module and class state (no decoy prelude, no
warm caches, nothing lazily initialised)."""
import json
import sys

from vf import core, e3


def main(argv):
    e3.install_lock_shim()
    core.load_repo()
    e3.pkg_dir()
    mode, h, kind = argv[0], argv[1], argv[2]
    mk = e3.harness(h, kind)
    if mode == "explore":
        res = e3.explore(mk, "line", int(argv[3]), cold=True)
        res["outcomes"] = len(res["outcomes"])
        print(json.dumps(res))
    elif mode == "replay":
        first = int(argv[3])
        dev = {int(k): v for k, v in json.loads(argv[4]).items()}
        snap0, solo_res = e3.solo_cold(mk)
        ex = e3.run_once_cold(mk, dev, first, "line")
        ex.probe_expected = getattr(mk, "probe_expected", None)
        try:
            msgs = e3.check(ex, snap0, solo_res)
        except e3.Unstable:
            msgs = []
        print(json.dumps({"msgs": msgs}))
    else:
        raise SystemExit("usage: explore|replay ...")


if __name__ == "__main__":
    main(sys.argv[1:])
