"""Generates /verif/MANIFEST.json from the table below (python -m vf.manifest).  Only checks whose module
exists are claimed; the rest are listed under not_applicable with the reason 'not built yet'."""
import importlib
import json
import os

from vf import core

GUARD = "OPENSKILL_VERIF"

TABLE = {
    "C01": ("exploration", "bounded-exhaustive input enumeration on the real code vs. independent interval reference model",
            "Every game of the named finite spaces (all weak orders up to 6 teams, value alphabets bracketing every branch "
            "threshold, 11 configurations incl. custom gamma callbacks) is run through the real rate() for all five models "
            "and each posterior must lie in the reference interval (1e-9 of scale; TM asymptotic branches: C17's envelope). "
            "Exhaustive within the stated bounds, not a proof for the continuum.", "§6 C01, §5",
            "reference model vf/ref.py + mpmath (40 digits) + CPython float arithmetic", "E1"),
    "C02": ("exploration", "bounded-exhaustive enumeration of shapes x weak orders x encodings with per-slot identity and reference oracle",
            "All team shapes up to 4 (thorough 5) teams of 1..3 players plus three 8-team shapes, every slot with a distinct value, name and id, "
            "every weak order x 5 encodings x 3 limit_sigma modes: nesting, id/name per slot, posterior of THAT player (reference), and the "
            "all-untouched-or-all-updated clause for the passed objects.", "§6 C02", "reference model as in C01", "E1"),
    "C03": ("exploration", "bounded-exhaustive enumeration of every encoding of every weak order on the real code, bit-exact metamorphic comparison",
            "For every weak order of up to 4 (quick) / 5 (thorough) teams, ~60-90 encodings (ints, floats, mixed typing patterns, negatives, "
            "bools, signed zeros, infinities, huge ints, the same as scores, omitted) are run through the real rate() of all five models and "
            "must give bit-identical posteriors, the canonical one inside the reference interval.", "§6 C03",
            "reference model for the canonical encoding; IEEE bit patterns for identity", "E1"),
    "C04": ("exploration", "bounded-exhaustive metamorphic comparison under all n! team permutations / generating transpositions and all within-team permutations",
            "Every game x weak order of T3, T4|V4 under all n! listings, T4 under adjacent transpositions, P2/P3 under every player permutation "
            "(thorough: up to 8 teams through generators); partial-pairing classes restricted to the admissible permutations the statement names.",
            "§6 C04", "tolerance R4; TM: plus reference-interval width", "E1"),
    "C05": ("exploration", "bounded-exhaustive enumeration; all outcomes of one game evaluated side by side and compared clause by clause",
            "Every clause of the statement (sole first/last, same direction and proportional shares, loss<=draw<=win, prior between, draw vs. "
            "strength, all C(n,2) exchanges of every strict order, identical teams ordered by place) on S2, P2, P3, T3, T4 and six further configs.",
            "§6 C05", "tolerance R4", "E1"),
    "C06": ("model_checking", "one-step invariant from every alphabet state + explicit-state BFS over call histories + exhaustive narrow-deep history search",
            "I3 (sigma finite, >0, <= sqrt(prior^2+tau_eff^2), <= prior under limit_sigma) is checked from EVERY alphabet state incl. the per-call "
            "option matrix (inductive step), on every transition of the E2 history search, and along all 3^8 (thorough 3^12) histories of a "
            "three-operation alphabet with the cumulative bound.", "§6 C06, §3-E2", "4-ulp slack on the inflation bound", "E1+E2"),
    "C07": ("exploration", "bounded-exhaustive enumeration with an invariant on each result",
            "Precision-weighted mu change summed over teams is zero (explicit rounding bound; TM: 2*kappa/c^2 per paired tie) for every game x every "
            "weak order incl. all multi-way ties of S2, P2, P3, T3, T4 and 7 further configs; equal-variance corollary on its sub-space.",
            "§6 C07", "rounding bound of R4", "E1"),
    "C08": ("exploration", "bounded-exhaustive enumeration of the corner space (extreme values, sizes, configurations) with a totality oracle",
            "All 24^2 combinations of extreme (mu, sigma, size) for two teams in games of 2, 3 and 8 teams, every outcome / tie pattern, 18 (thorough 36) "
            "configurations of beta, tau, kappa; rate and the three predictors of all five classes must return finite numbers without exception.",
            "§6 C08", "watchdog 30 s per call", "E1"),
    "C09": ("exploration", "bounded-exhaustive enumeration; invariant on each result + metamorphic comparison under all permutations and all single-player increments",
            "predict_win: length, range, sum, identical teams, exact 1/2, all n! permutations (n<=4) / transpositions, every within-team reversal and "
            "EVERY player slot x 3 mu increments, on the prediction space G for all five classes.", "§6 C09", "1e-12 slack", "E1"),
    "C10": ("exploration", "bounded-exhaustive enumeration; range invariant, permutation metamorphic relation, exhaustive gap ladders and equalised twins",
            "predict_draw in [0,1] on all of G plus sigma->0 / 16-player corners; invariant under all team (n<=4: n!) and player permutations; "
            "non-increasing along every gap ladder of S2 (both signs, sigma incl. 0); equalised twin never lower.", "§6 C10", "1e-12 slack", "E1"),
    "C11": ("exploration", "bounded-exhaustive enumeration with an invariant on each result",
            "predict_rank on all of G (value products contain every pattern of exactly identical teams) plus 8-team tie patterns: pairs in input "
            "order, ranges, strict/equal order consistency on the returned floats, best has rank 1, sum with predict_draw = 1 for n>=3.",
            "§6 C11", "order clauses exact; sum 1e-12*n", "E1"),
    "C12": ("exploration", "bounded-exhaustive enumeration vs. independent 40-digit evaluation of the documented closed forms",
            "All three predictors of all five classes on every game of G under four configurations, compared to mpmath closed forms at 1e-9 absolute.",
            "§6 C12", "mpmath erfc/erfinv", "E1"),
    "C13": ("fault_enumeration", "fault grammar injected at every position of valid calls + rejected calls as self-loops in the E2 history search",
            "~4000 malformed calls per class (13 wrong containers for teams, 8 per team position, 14 per player position incl. foreign ratings, 11 selector "
            "containers/lengths, 11 element faults per position, both selectors) + 16 well-formed typings: exception class, no return, deep snapshot of "
            "every reachable rating, the containers and the model unchanged; E2/I4 in every state reachable by one rate call.", "§6 C13, §3-E2",
            "falsy non-list selectors count as not given; Decimal/Fraction/complex may be accepted or cleanly rejected", "E1+E2"),
    "C14": ("model_checking", "explicit-state BFS over call histories on the real code + stateless schedule exploration with iterative preemption bounding + hash-seed alphabet",
            "E2: every history of depth <= 2 (thorough: 3) over a 292-call alphabet (and of depth <= 3, thorough 4, over a 33-call option-toggle "
            "alphabet on one pair of long-lived ratings) is executed on the real code for 5 classes x 3-4 model configs from a warm state; every "
            "transition is checked for a model identical to a never-used one (I1) and bit-identity with the same call on fresh objects, also with all "
            "ratings carrying one id (I2). E3: every schedule with <= 1 (thorough: 2) preemptions of fifteen 2-3-thread harnesses at line and opcode "
            "granularity, warm, from a cold start (every execution in a forked child of a pristine process) and under cache pressure; each thread must "
            "return exactly its solo result, ids of concurrently created ratings must be distinct, and sequential probe calls afterwards must be "
            "unaffected.  The exploration is repeated under 4 hash seeds with different rating ids and process pre-histories and must produce one digest.",
            "§3-E2, §3-E3, §6 C14, §14.2",
            "CPython GIL atomicity of C-level calls; sys.settrace line/opcode events as scheduling points; uuid4 replaced by a counter", "E2+E3"),
    "C15": ("model_checking", "bounded-exhaustive metamorphic comparison of two real executions + explicit-state BFS over call histories with invariant I6",
            "On every game of S2 and T3 (sigma alphabet extended so tau and the clamp are visible) x every weak order, 24 comparisons "
            "Model(s').rate(g, option) == Model(option).rate(g) incl. tau=0 / 0.0 / 1e-300, explicit None and mixed options, "
            "for all five models; 1e-12 relative.  E2: on every rate transition with a per-call option, in every state reachable by one "
            "(thorough: two) earlier calls - and by up to two (three) earlier calls of the option-toggle alphabet on the same two rating objects - "
            "the result must equal what a fresh model built with those options returns (I6).",
            "§6 C15, §3-E2", "none beyond CPython floats (both sides are the real code)", "E1+E2"),
    "C16": ("exploration", "bounded-exhaustive metamorphic comparison under rescaling and shifting of the skill scale",
            "Every game x weak order of S2, P2, P3, T3, T4|V4 rescaled by 6 factors incl. 2^-30 and 2^30 (PL, BT) and shifted by 3 offsets (all five, equal team sizes); "
            "predictions on G2, G3, G4 under the same transformations.", "§6 C16", "R4; TM shift: reference-interval width", "E1"),
    "C17": ("exploration", "exhaustive grid sweep (x,t) incl. ulp neighbourhoods of all branch thresholds vs. 40-digit mpmath",
            "v, w, vt, wt on the full product of a dense x grid on [-40,40] (plus threshold windows and ulp neighbourhoods) and 70 t values, the far field "
            "|x| up to the largest finite float against closed-form bounds, "
            "and phi_major on [-37.5, 38], each point compared with the mathematical definition at 40 digits; the statement's "
            "clauses are applied verbatim.", "§3-E4, §6 C17",
            "mpmath erfc/exp (cross-checked against a decimal continued fraction in-run)", "E4"),
    "C18": ("exploration", "exhaustive enumeration of all ordered pairs of a value alphabet x operators, foreign operands and 4-subsets",
            "26^2 pairs x 6 operators, ordinal(z) for 7 z values, 13 foreign operand types on both sides, sorted() of all 14950 4-subsets in two "
            "listing orders, for the five rating classes.", "§6 C18", "ordinal compared to mu - z*sigma within 2 ulp", "E1"),
    "C19": ("exploration", "differential comparison of the five model classes as five programs over the exhaustive spaces of C09-C13/C18",
            "Predictions on all of G, the complete C13 fault grammar (decision + exception class), the C18 alphabet (compare/hash/copy vectors), "
            "all public signatures, and BT-part vs BT-full on all 2-team games of S2/P2 under 5 configs.", "§6 C19", "1e-12 on numbers, exact otherwise", "E1"),
    "C20": ("model_checking", "construction/copy alphabet enumeration + rebuilt-vs-original differential + restore/deepcopy transitions in the E2 history search",
            "Every (mu, sigma) x name x omission pattern through rating/create_rating on default and custom models; 10^4 ids; deepcopy of ratings, teams, "
            "leagues; every game of T3|V6 and P3 rated/predicted with original, create_rating-rebuilt, rating-rebuilt and deep-copied players must agree "
            "bit for bit; E2: restore/copy transitions interleaved with every operation to depth 2 (thorough 3), I5 and I2.", "§6 C20, §3-E2",
            "create_rating reads a falsy name as no name (I6)", "E1+E2"),
}

ENGINES = [
    {"name": "E1", "path": "vf/spaces.py", "serves_properties": ["C01", "C02", "C03", "C04", "C05", "C07", "C08", "C09", "C10", "C11", "C12", "C15", "C16", "C18", "C19"],
     "kind_free_text": "bounded-exhaustive input-space enumerator running the real API on every element of named finite spaces"},
    {"name": "E2", "path": "vf/e2.py", "serves_properties": ["C06", "C13", "C14", "C15", "C20"],
     "kind_free_text": "explicit-state BFS over call histories on the real transition function, differential invariant per transition"},
    {"name": "E3", "path": "vf/e3.py", "serves_properties": ["C14"],
     "kind_free_text": "stateless schedule explorer: sys.settrace line/opcode scheduling points, iterative preemption bounding on real threads"},
    {"name": "E4", "path": "vf/checks/c17.py", "serves_properties": ["C17"],
     "kind_free_text": "exhaustive grid sweep of scalar functions against mpmath"},
    {"name": "REF", "path": "vf/ref.py", "serves_properties": ["C01", "C02", "C03", "C04", "C12", "C16"],
     "kind_free_text": "independent reference model (float + 40-digit contexts, interval semantics)"},
]


def build():
    checks, na = [], []
    all_ids = [json.loads(l)["id"] for l in open(os.path.join(core.ROOT, "properties.jsonl"))]
    for pid in all_ids:
        have = os.path.exists(os.path.join(core.ROOT, "vf", "checks", pid.lower() + ".py")) and pid in TABLE
        if not have:
            na.append({"property_id": pid, "reason": "check not built yet in this round (planned in DESIGN.md §6); not claimed until it runs"})
            continue
        level, technique, text, ref_, trusted, engine = TABLE[pid]
        checks.append({
            "property_id": pid,
            "quick_cmd": f"bin/check {pid} --tier quick",
            "thorough_cmd": f"bin/check {pid} --tier thorough",
            "evidence_file": f"/verif/evidence/{pid}.json",
            "replay_cmd_template": f"bin/check {pid} --replay {{path}}",
            "engine": engine,
            "level_claimed": {"category": level, "text": text, "design_ref": ref_},
            "level_note": trusted,
            "technique": technique,
        })
    man = {
        "version": 1,
        "setup_cmd": "bin/setup",
        "hooks": {
            "guard": GUARD,
            "enable": "no source hooks are needed: checks import /repo's working tree directly (VERIF_REPO overrides the path); the guard is unused",
            "baseline_off_cmd": "cd /repo && /venv/bin/python -m pytest -ra -q -p no:cacheprovider --timeout=900 --continue-on-collection-errors",
            "source_commits": [],
            "add_only": True,
        },
        "engines": ENGINES,
        "checks": checks,
        "not_applicable": na,
        "notes": "All checks run the real code of /repo's working tree (pure Python; rebuild = re-import in a fresh process). "
                 "fix: commits in /repo are recorded in KNOWN_FINDINGS.txt.",
    }
    return man


if __name__ == "__main__":
    man = build()
    try:
        import sys
        sys.path.append(core.DEPS)
        import jsonschema
        jsonschema.validate(man, json.load(open("/root/.vp/MANIFEST.schema.json")))
    except ImportError:
        pass
    with open(os.path.join(core.ROOT, "MANIFEST.json"), "w") as f:
        json.dump(man, f, indent=1)
        f.write("\n")
    print("claimed:", [c["property_id"] for c in man["checks"]], "not claimed:", len(man["not_applicable"]))
