"""Generates /verif/MANIFEST.json from the table below (python -m vf.manifest).  Only checks whose module
exists are claimed; the rest are listed under not_applicable with the reason 'not built yet'."""
import importlib
import json
import os

from vf import core

GUARD = "OPENSKILL_VERIF"

TABLE = {
    "C01": ("exploration", "bounded-exhaustive input enumeration on the real code vs. independent interval reference model",
            "Every game of the named finite spaces (all weak orders up to 6 teams, value alphabets bracketing every branch "
            "threshold, 11 configurations incl. custom gamma callbacks) is run through the real rate() for all five models "
            "and each posterior must lie in the reference interval (1e-9 of scale; TM asymptotic branches: C17's envelope). "
            "Exhaustive within the stated bounds, not a proof for the continuum.", "§6 C01, §5",
            "reference model vf/ref.py + mpmath (40 digits) + CPython float arithmetic"),
    "C03": ("exploration", "bounded-exhaustive enumeration of every encoding of every weak order on the real code, bit-exact metamorphic comparison",
            "For every weak order of up to 4 (quick) / 5 (thorough) teams, ~60-90 encodings (ints, floats, mixed typing patterns, negatives, "
            "bools, signed zeros, infinities, huge ints, the same as scores, omitted) are run through the real rate() of all five models and "
            "must give bit-identical posteriors, the canonical one inside the reference interval.", "§6 C03",
            "reference model for the canonical encoding; IEEE bit patterns for identity"),
    "C14": ("model_checking", "explicit-state BFS over call histories on the real code + stateless schedule exploration with iterative preemption bounding + hash-seed alphabet",
            "E2: every history of depth <= 2 (thorough: 3) over a 256-call alphabet is executed on the real code for 5 classes x 4 model "
            "configs; every transition is checked for an unchanged model (I1) and bit-identity with the same call on fresh objects (I2). "
            "E3: every schedule with <= 1 (thorough: 2) preemptions of six 2-3-thread harnesses at line and opcode granularity; each thread "
            "must return exactly its solo result.  The exploration is repeated under 4 hash seeds with different rating ids and must "
            "produce one digest.", "§3-E2, §3-E3, §6 C14",
            "CPython GIL atomicity of C-level calls; sys.settrace line/opcode events as scheduling points; uuid4 replaced by a counter"),
    "C15": ("exploration", "bounded-exhaustive metamorphic comparison of two real executions (per-call option vs. model-level option)",
            "On every game of S2 and T3 (sigma alphabet extended so tau and the clamp are visible) x every weak order, 24 comparisons "
            "Model(s').rate(g, option) == Model(option).rate(g) incl. tau=0 / 0.0 / 1e-300, explicit None and mixed options, "
            "for all five models; 1e-12 relative.", "§6 C15", "none beyond CPython floats (both sides are the real code)"),
    "C17": ("exploration", "exhaustive grid sweep (x,t) incl. ulp neighbourhoods of all branch thresholds vs. 40-digit mpmath",
            "v, w, vt, wt on the full product of a dense x grid (plus threshold windows and ulp neighbourhoods) and 70 t values, "
            "and phi_major on [-37.5, 38], each point compared with the mathematical definition at 40 digits; the statement's "
            "clauses are applied verbatim.", "§3-E4, §6 C17",
            "mpmath erfc/exp (cross-checked against a decimal continued fraction in-run)"),
}

ENGINES = [
    {"name": "E1", "path": "vf/spaces.py", "serves_properties": ["C01", "C02", "C03", "C04", "C05", "C07", "C08", "C09", "C10", "C11", "C12", "C15", "C16", "C18", "C19"],
     "kind_free_text": "bounded-exhaustive input-space enumerator running the real API on every element of named finite spaces"},
    {"name": "E2", "path": "vf/e2.py", "serves_properties": ["C06", "C13", "C14", "C15", "C20"],
     "kind_free_text": "explicit-state BFS over call histories on the real transition function, differential invariant per transition"},
    {"name": "E3", "path": "vf/e3.py", "serves_properties": ["C14"],
     "kind_free_text": "stateless schedule explorer: sys.settrace line/opcode scheduling points, iterative preemption bounding on real threads"},
    {"name": "E4", "path": "vf/checks/c17.py", "serves_properties": ["C17"],
     "kind_free_text": "exhaustive grid sweep of scalar functions against mpmath"},
    {"name": "REF", "path": "vf/ref.py", "serves_properties": ["C01", "C02", "C03", "C04", "C12", "C16"],
     "kind_free_text": "independent reference model (float + 40-digit contexts, interval semantics)"},
]


def build():
    checks, na = [], []
    all_ids = [json.loads(l)["id"] for l in open(os.path.join(core.ROOT, "properties.jsonl"))]
    for pid in all_ids:
        have = os.path.exists(os.path.join(core.ROOT, "vf", "checks", pid.lower() + ".py")) and pid in TABLE
        if not have:
            na.append({"property_id": pid, "reason": "check not built yet in this round (planned in DESIGN.md §6); not claimed until it runs"})
            continue
        level, technique, text, ref_, trusted = TABLE[pid]
        checks.append({
            "property_id": pid,
            "quick_cmd": f"bin/check {pid} --tier quick",
            "thorough_cmd": f"bin/check {pid} --tier thorough",
            "evidence_file": f"/verif/evidence/{pid}.json",
            "replay_cmd_template": f"bin/check {pid} --replay {{path}}",
            "engine": {"C17": "E4", "C14": "E2+E3"}.get(pid, "E1"),
            "level_claimed": {"category": level, "text": text, "design_ref": ref_},
            "level_note": trusted,
            "technique": technique,
        })
    man = {
        "version": 1,
        "setup_cmd": "bin/setup",
        "hooks": {
            "guard": GUARD,
            "enable": "no source hooks are needed: checks import /repo's working tree directly (VERIF_REPO overrides the path); the guard is unused",
            "baseline_off_cmd": "cd /repo && /venv/bin/python -m pytest -ra -q -p no:cacheprovider --timeout=900 --continue-on-collection-errors",
            "source_commits": [],
            "add_only": True,
        },
        "engines": ENGINES,
        "checks": checks,
        "not_applicable": na,
        "notes": "All checks run the real code of /repo's working tree (pure Python; rebuild = re-import in a fresh process). "
                 "fix: commits in /repo are recorded in KNOWN_FINDINGS.txt.",
    }
    return man


if __name__ == "__main__":
    man = build()
    try:
        import sys
        sys.path.append(core.DEPS)
        import jsonschema
        jsonschema.validate(man, json.load(open("/root/.vp/MANIFEST.schema.json")))
    except ImportError:
        pass
    with open(os.path.join(core.ROOT, "MANIFEST.json"), "w") as f:
        json.dump(man, f, indent=1)
        f.write("\n")
    print("claimed:", [c["property_id"] for c in man["checks"]], "not claimed:", len(man["not_applicable"]))
