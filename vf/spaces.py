"""Alphabets, configurations and named finite spaces (DESIGN §4).  Everything here is a pure,
repetition-free generator: a space is enumerated completely or not at all."""
import functools
import itertools
import math

KINDS = ["PL", "BTF", "BTP", "TMF", "TMP"]
CLASSNAME = {
    "PL": "PlackettLuce",
    "BTF": "BradleyTerryFull",
    "BTP": "BradleyTerryPart",
    "TMF": "ThurstoneMostellerFull",
    "TMP": "ThurstoneMostellerPart",
}
FULL = ("PL", "BTF", "TMF")  # equivariant under every team permutation
TM = ("TMF", "TMP")


def model_class(kind):
    import openskill.models as M

    return getattr(M, CLASSNAME[kind])


# --------------------------------------------------------------------------- value alphabets (β-units)
D = 2.0 ** -20
M7 = [-20, -6, 0, 6, 6 + D, 8, 20]
S4 = [1e-4, 1, 2, 10]
V12 = [(6, 2), (6 + D, 2), (6, 1e-4), (6, 10), (0, 2), (0, 1), (8, 2), (8, 1e-4), (20, 2), (20, 10), (-20, 1), (-6, 2)]
V6 = [(6, 2), (6 + D, 1e-4), (0, 10), (8, 1), (20, 2), (-20, 1e-4)]
V4 = [(6, 2), (6 + D, 1e-4), (0, 10), (20, 1)]
V3 = [(6, 2), (0, 1e-4), (14, 10)]
V2 = [(6, 2), (-2, 1e-4)]
V28 = [(m, s) for m in M7 for s in S4]
# far apart AND equal-mu pairs with very different sigma (a pair loop that stops early "because the remaining opponents are further away"
# forgets that the pair scale depends on the opponent's sigma): used for the permutation checks of the predictors in the quick tier
VF = [(20, 1e-4), (20, 10), (-20, 1e-4), (-20, 10), (-20, 2), (6, 2), (0, 1e-4)]
X41 = [0.0] + [sg * v for v in (2.0 ** -30, .25, .5, 1, 1.5, 2, 3, 4, 5, 5.5, 6, 6.5, 7, 7.5, 8, 8.12, 8.13, 8.3, 9, 12)
               for sg in (1, -1)]
SHAPES_S2 = [(1, 1), (1, 2), (2, 1), (2, 2), (1, 3), (3, 1)]
# far field of the standardised gap, for the classes whose update goes through exp(): 2^53 ~ e^36.7 is where a sum "big + small" absorbs
# the small term (any rewrite of a normaliser as "total minus the rest" cancels there) and the quotient forms lose their last digits from
# ~ 20 c on; only shapes whose team totals can be that far apart inside |mu| <= 20 beta take part
XFAR = [sg * v for v in (16.0, 20.0, 24.0, 28.0, 33.0, 36.0, 37.5, 45.0) for sg in (1, -1)]
SHAPES_S2F = [(1, 1), (2, 2), (1, 3), (3, 1), (3, 3)]


# --------------------------------------------------------------------------- outcomes
@functools.lru_cache(None)
def weak_orders(n):
    """All weak orders of n teams as dense rank vectors (0-based, every level used)."""
    out = []
    for f in itertools.product(range(n), repeat=n):
        k = max(f) + 1
        if len(set(f)) == k:
            out.append(tuple(f))
    return out


@functools.lru_cache(None)
def tie_patterns(n):
    """All 2^(n-1) compositions of n as non-decreasing dense rank vectors."""
    out = []
    for cuts in itertools.product((0, 1), repeat=n - 1):
        r, cur = [0], 0
        for c in cuts:
            cur += c
            r.append(cur)
        out.append(tuple(r))
    return out


@functools.lru_cache(None)
def generator_perms(n):
    """id, reversal, rotation, the n-1 adjacent swaps."""
    ident = tuple(range(n))
    out = [ident, tuple(reversed(ident)), tuple(list(ident[1:]) + [0])]
    for i in range(n - 1):
        p = list(ident)
        p[i], p[i + 1] = p[i + 1], p[i]
        out.append(tuple(p))
    res = []
    for p in out:
        if p not in res:
            res.append(p)
    return res


def outcomes_big(n):
    """n = 7, 8: every tie pattern x generator permutations (as rank vectors by input position)."""
    seen = set()
    for tp in tie_patterns(n):
        for p in generator_perms(n):
            r = tuple(tp[p[i]] for i in range(n))
            if r not in seen:
                seen.add(r)
                yield r


def dense(ranks):
    return [sum(1 for y in ranks if y < x) for x in ranks]


# --------------------------------------------------------------------------- configurations
BETA0 = 25.0 / 6.0


def _g_inv_k(c, k, mu, sigma_squared, team, rank):
    return 1.0 / k


def _g_100(c, k, mu, sigma_squared, team, rank):
    return 100.0


def _g_rich(c, k, mu, sigma_squared, team, rank):
    return (math.sqrt(sigma_squared) / c) * (1.0 + 0.1 * k + 0.05 * math.atan(mu / c) + 0.07 * len(team) + 0.03 * rank)


def _g_zero(c, k, mu, sigma_squared, team, rank):
    return 0.0


def _g_zero_first(c, k, mu, sigma_squared, team, rank):
    return 0.0 if rank == 0 else 1.0 / k


GAMMAS = {"inv_k": _g_inv_k, "c100": _g_100, "rich": _g_rich, "zero": _g_zero, "zero_first": _g_zero_first}


class Cfg:
    """Model construction parameters, all explicit.  scale multiplies mu/sigma/beta/tau."""

    def __init__(self, name, scale=1.0, beta=BETA0, kappa=1e-4, tau_b=0.02, gamma=None, limit_sigma=False):
        self.name = name
        self.beta = beta * scale
        self.mu = 6.0 * self.beta
        self.sigma = 2.0 * self.beta
        self.kappa = kappa
        self.tau = tau_b * self.beta
        self.gamma = gamma
        self.limit_sigma = limit_sigma

    def kwargs(self):
        kw = dict(mu=self.mu, sigma=self.sigma, beta=self.beta, kappa=self.kappa, tau=self.tau,
                  limit_sigma=self.limit_sigma)
        if self.gamma is not None:
            kw["gamma"] = GAMMAS[self.gamma]
        return kw

    def gamma_fn(self):
        return GAMMAS[self.gamma] if self.gamma else None

    def make(self, kind):
        m = model_class(kind)(**self.kwargs())
        decoy_model(kind)
        return m

    def describe(self):
        return dict(name=self.name, beta=self.beta, kappa=self.kappa, tau=self.tau, gamma=self.gamma,
                    limit_sigma=self.limit_sigma)


def decoy_model(kind):
    """Construct (and drop) a model of the same class with OTHER parameters right after the model a check is about to use.
    Anything a constructor leaves at class or module level ("the parameters of the most recently built model") is thereby
    wrong for the model under test; the decoy prelude (lib.decoy_prelude) covers the "first built wins" direction."""
    b = 2.7 * BETA0 + 0.0371
    return model_class(kind)(mu=4 * b, sigma=1.3 * b, beta=b, kappa=7e-3, tau=0.3 * b, limit_sigma=True)


def config(name):
    return {
        "K0": lambda: Cfg("K0"),
        "K1": lambda: Cfg("K1", beta=1.0),
        "K2": lambda: Cfg("K2", kappa=1e-2),
        "K3": lambda: Cfg("K3", tau_b=0.0),
        "K4": lambda: Cfg("K4", tau_b=2.0),
        "K5": lambda: Cfg("K5", limit_sigma=True),
        "K6": lambda: Cfg("K6", gamma="inv_k"),
        "K7": lambda: Cfg("K7", gamma="c100"),
        "K8": lambda: Cfg("K8", gamma="rich"),
        "K9": lambda: Cfg("K9", scale=1e3),
        "K10": lambda: Cfg("K10", scale=1e-3),
        "KG0": lambda: Cfg("KG0", gamma="zero"),
        "KG1": lambda: Cfg("KG1", gamma="zero_first"),  # 0 for the best-placed team(s), 1/k for the others
        "KK12": lambda: Cfg("KK12", kappa=1e-12),
    }[name]()


ALLK = ["K0", "K1", "K2", "K3", "K4", "K5", "K6", "K7", "K8", "K9", "K10"]
PREDK = ["K0", "K1", "K9", "K10"]


# --------------------------------------------------------------------------- value games (β-units)
def c_pair(kind, cfg, na, sa, nb, sb):
    """c_iq of two homogeneous teams (na players of sigma sa·β, ...), TMP doubles it."""
    b = cfg.beta
    va = na * ((sa * b) ** 2 + cfg.tau ** 2)
    vb = nb * ((sb * b) ** 2 + cfg.tau ** 2)
    c = math.sqrt(va + vb + 2 * b * b)
    return 2 * c if kind == "TMP" else c


def games_S2(kind, cfg, sig=None, gaps=None, shapes_=None):
    """2 homogeneous teams at every standardised gap of X41.  Yields absolute-unit games."""
    b = cfg.beta
    sig = sig or S4
    for (na, nb) in (shapes_ or SHAPES_S2):
        for sa in sig:
            for sb in sig:
                c = c_pair(kind, cfg, na, sa, nb, sb)
                for x in (gaps or X41):
                    gap = x * c
                    mid = 6 * b * (na + nb) / 2  # both team totals sit symmetrically around this common mean
                    ma = (mid + gap / 2) / na
                    mb = (mid - gap / 2) / nb
                    if abs(ma) > 20 * b or abs(mb) > 20 * b:
                        continue
                    yield [[(ma, sa * b)] * na, [(mb, sb * b)] * nb]


def _abs(vals, b):
    return [(m * b, s * b) for (m, s) in vals]


def games_product(shape, alphabet, cfg):
    """Every assignment of alphabet values to the player slots of `shape` (tuple of team sizes)."""
    b = cfg.beta
    al = _abs(alphabet, b)
    nslots = sum(shape)
    for vals in itertools.product(al, repeat=nslots):
        g, k = [], 0
        for sz in shape:
            g.append(list(vals[k:k + sz]))
            k += sz
        yield g


def shapes(nteams, maxsize):
    return list(itertools.product(range(1, maxsize + 1), repeat=nteams))


def games_P2(cfg):
    for sh in shapes(2, 3):
        yield from games_product(sh, V4, cfg)


def games_P3(cfg):
    for sh in shapes(3, 2):
        yield from games_product(sh, V3, cfg)


def games_T(n, alphabet, cfg):
    yield from games_product((1,) * n, alphabet, cfg)


def games_dev(n, cfg, alphabet=V4, bound=2, size=1):
    """Deviation-bounded: default game (every player = model default), <= bound team slots replaced
    by a (team-homogeneous) alphabet value != default."""
    b = cfg.beta
    default = (6 * b, 2 * b)
    alts = [v for v in _abs(alphabet, b) if v != default]
    base = [[default] * size for _ in range(n)]
    yield [list(t) for t in base]
    for k in range(1, bound + 1):
        for slots in itertools.combinations(range(n), k):
            for vals in itertools.product(alts, repeat=k):
                g = [list(t) for t in base]
                for s, v in zip(slots, vals):
                    g[s] = [v] * size
                yield g


SPACE_ALPH = {"T3": (3, V12), "T4": (4, V6), "T5": (5, V4), "T6": (6, V3),
              "T3|V6": (3, V6), "T4|V4": (4, V4), "T5|V2": (5, V2), "T5|V3": (5, V3), "T6|V2": (6, V2),
              "T3|V4": (3, V4), "T4|V3": (4, V3), "T4|V2": (4, V2), "T3|V3": (3, V3)}


def games_PK(cfg):
    """Team sizes 4..8 (the sizes between the small products and the corner space): for every k, shapes (k,1) (1,k) (k,k) (k,2,1)
    x three value patterns (all default / members alternating over V2 / one low-sigma veteran among defaults)."""
    b = cfg.beta
    d = (6 * b, 2 * b)
    pats = {
        "default": lambda i, j: d,
        "alt": lambda i, j: ((6 * b, 2 * b) if (i + j) % 2 == 0 else (-2 * b, 1e-4 * b)),
        "veteran": lambda i, j: ((8 * b, 1e-2 * b) if j == 1 else ((6 + i) * b, 2 * b)),
    }
    for k in range(4, 9):
        for shape in ((k, 1), (1, k), (k, k), (k, 2, 1)):
            for name, f in pats.items():
                yield [[f(i, j) for j in range(sz)] for i, sz in enumerate(shape)]


def value_games(space, kind, cfg):
    """Value games (no outcome) of a named space, absolute units."""
    if space == "PK":
        return games_PK(cfg)
    if space == "P2z":  # 2 teams of 1-2 players over V4 + an exactly-zero-sigma member (valid whenever tau > 0): mixed zero / non-zero teams
        return (g for sh in shapes(2, 2) for g in games_product(sh, V4 + [(6, 0.0)], cfg))
    if space == "S2":
        return games_S2(kind, cfg)
    if space == "S2F":
        return games_S2(kind, cfg, gaps=XFAR, shapes_=SHAPES_S2F)
    if space == "P2":
        return games_P2(cfg)
    if space == "P3":
        return games_P3(cfg)
    if space in SPACE_ALPH:
        n, al = SPACE_ALPH[space]
        return games_T(n, al, cfg)
    if space == "D7b1":
        return games_dev(7, cfg, bound=1)
    if space == "D8b1":
        return games_dev(8, cfg, bound=1)
    if space == "D7":
        return games_dev(7, cfg)
    if space == "D8":
        return games_dev(8, cfg)
    if space == "D8x8":
        return games_dev(8, cfg, size=8)
    if space == "D2x16":
        return games_dev(2, cfg, size=16)
    raise KeyError(space)


def outcomes_for(n, thin=False):
    """every weak order (n <= 6) / every tie pattern x generator permutation (n >= 7, and n >= 5 when thin)"""
    if thin and n >= 5:
        return list(outcomes_big(n))
    return weak_orders(n) if n <= 6 else list(outcomes_big(n))


def sharded(iterable, k, parts):
    for i, x in enumerate(iterable):
        if i % parts == k:
            yield x


# --------------------------------------------------------------------------- prediction spaces
def pred_games(space, cfg):
    """Value games for the predictors (no outcome; richer alphabets)."""
    if space == "G2":
        seen = set()
        for kind in ("PL",):
            for g in games_S2(kind, cfg):
                yield g
        yield from games_P2(cfg)
        return
    tab = {"G3": (3, V28), "G4": (4, V12), "G5": (5, V6), "G6": (6, V4), "G7": (7, V3), "G8": (8, V3),
           "G4|V6": (4, V6), "G5|V4": (5, V4), "G3|V12": (3, V12), "G3|VF": (3, VF), "G4|VF": (4, VF), "G6|V2": (6, V2), "G7|V2": (7, V2)}
    if space in tab:
        n, al = tab[space]
        yield from games_T(n, al, cfg)
        return
    if space == "GP":
        # ordinal-equal but different ratings (mu = 3 sigma): value equality and ordinal equality must not be confused anywhere
        oe = [(30.0, 10.0), (15.0, 5.0), (24.0, 8.0), (25.0, 25.0 / 3.0), (0.0, 0.0)]
        sc = cfg.beta / BETA0
        oe = [(m * sc, s * sc) for m, s in oe]
        for vals in itertools.product(oe, repeat=3):
            yield [[v] for v in vals]
        for a in oe:
            for b_ in oe:
                yield [[a], [b_]]
                yield [[a, b_], [b_, a]]
        yield from games_PK(cfg)
        yield from games_P3(cfg)
        yield from games_dev(8, cfg, size=8)
        yield from games_dev(2, cfg, size=16)
        return
    raise KeyError(space)
