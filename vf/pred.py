"""Shared helpers for the prediction properties C09-C12, C16, C19."""
from vf import core, lib, spaces


def predict_all(model, game):
    """(win list, draw float, rank list[(rank, prob)]) from the real API on fresh ratings."""
    t = lib.ratings(model, game)
    w = model.predict_win(t)
    t = lib.ratings(model, game)
    d = model.predict_draw(t)
    t = lib.ratings(model, game)
    r = model.predict_rank(t)
    return w, d, r


def predict_all_aliased(model, game):
    """Same three calls with identical teams passed as ONE list object in several slots; None if no duplicate team."""
    t = lib.ratings_aliased(model, game)
    if t is None:
        return None
    w = model.predict_win(t)
    d = model.predict_draw(lib.ratings_aliased(model, game))
    r = model.predict_rank(lib.ratings_aliased(model, game))
    return w, d, r


def plan_spaces(ctx, full_under_k0=None):
    """[(space, cfg name)] of the prediction space G under the prediction configs."""
    sp0 = ["G2", "G3", "G4", "G5", "GP"] + (["G6", "G7", "G8"] if ctx.thorough else ["G6|V2", "G7|V2"])
    out = [(s, "K0") for s in sp0]
    for K in spaces.PREDK[1:]:
        out += [("G2", K), ("G3", K)]
    return out


PARTS = {"G2": 8, "G3": 16, "G4": 16, "G5": 8, "G6": 6, "G7": 4, "G8": 12, "GP": 4, "G6|V2": 1, "G7|V2": 2}


def units(ctx, extra=None):
    us = []
    for (sp, K) in plan_spaces(ctx):
        parts = PARTS[sp]
        for k in range(parts):
            us.append((sp, K, k, parts))
    return us


def case(cfg, game, kind=None, **more):
    d = {"cfg": cfg.name, "game": core.game_hex(game)}
    if kind:
        d["kind"] = kind
    d.update(more)
    return d


def uncase(c):
    return spaces.config(c["cfg"]), core.game_unhex(c["game"])
