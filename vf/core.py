"""Shared plumbing: repo import (R1), parallel unit runner (R8), accumulators, replay artefacts,
known findings, evidence files.  No check logic lives here."""
import fnmatch
import hashlib
import json
import multiprocessing
import os
import random
import subprocess
import sys
import time
import traceback

ROOT = os.path.dirname(os.path.dirname(os.path.abspath(__file__)))
REPO = os.path.abspath(os.environ.get("VERIF_REPO", "/repo"))
DEPS = os.path.join(ROOT, ".deps")
if not os.path.isdir(DEPS):
    DEPS = "/verif/.deps"  # snapshot runs (vp run) do not carry the ignored .deps directory
PY = "/venv/bin/python"

EXIT_OK, EXIT_VIOLATION, EXIT_HARNESS = 0, 1, 2


class HarnessError(Exception):
    """The machinery (not the library) is wrong: self-check failed, replay diverged, ..."""


def load_repo():
    """Import openskill from REPO's working tree and make sure that is really what we got."""
    if REPO in sys.path:
        sys.path.remove(REPO)
    sys.path.insert(0, REPO)
    if DEPS not in sys.path:
        sys.path.append(DEPS)
    import openskill
    import openskill.models

    got = os.path.dirname(os.path.abspath(openskill.__file__))
    want = os.path.join(REPO, "openskill")
    if os.path.realpath(got) != os.path.realpath(want):
        raise HarnessError(f"openskill imported from {got}, expected {want}")
    return openskill


class Ctx:
    def __init__(self, tier=None, seed=None, jobs=None):
        self.tier = tier or os.environ.get("VERIF_TIER") or "quick"
        if self.tier not in ("quick", "thorough"):
            raise HarnessError(f"bad tier {self.tier}")
        self.seed = int(seed if seed is not None else os.environ.get("VERIF_SEED", "0") or 0)
        self.jobs = int(jobs or os.environ.get("VERIF_JOBS") or min(16, os.cpu_count() or 1))
        self.repo = REPO

    @property
    def thorough(self):
        return self.tier == "thorough"


# ----------------------------------------------------------------------------- float helpers
def bits(x):
    """Canonical, JSON-able identity of a number: IEEE bit pattern for floats, type+repr otherwise."""
    if type(x) is float:
        return x.hex()
    return f"{type(x).__name__}:{x!r}"


def hx(x):
    """float -> hex string for replay files (exact); ints stay ints."""
    return x.hex() if isinstance(x, float) else x


def unhx(x):
    return float.fromhex(x) if isinstance(x, str) else x


def game_hex(game):
    return [[[hx(m), hx(s)] for (m, s) in team] for team in game]


def game_unhex(g):
    return [[(unhx(m), unhx(s)) for (m, s) in team] for team in g]


# ----------------------------------------------------------------------------- accumulator
class Acc:
    """Mergeable result of one unit of exploration."""

    MAXV = 12  # violations kept with full case (all are counted)
    MAXS = 2

    def __init__(self):
        self.evals = 0
        self.nontrivial = 0
        self.viol_count = 0
        self.violations = []
        self.samples = []
        self.count = {}  # additive counters
        self.maxi = {}  # running maxima: name -> (value, where)

    def violation(self, pid, key, msg, case):
        self.viol_count += 1
        self.count["viol:" + key] = self.count.get("viol:" + key, 0) + 1
        if len(self.violations) < self.MAXV and sum(1 for v in self.violations if v["key"] == key) < 2:
            self.violations.append({"property": pid, "key": key, "msg": msg, "case": case})

    def sample(self, s):
        if len(self.samples) < self.MAXS:
            self.samples.append(s)

    def add(self, name, n=1):
        self.count[name] = self.count.get(name, 0) + n

    def mx(self, name, value, where=None):
        cur = self.maxi.get(name)
        if cur is None or value > cur[0]:
            self.maxi[name] = (value, where)

    def merge(self, o):
        self.evals += o.evals
        self.nontrivial += o.nontrivial
        self.viol_count += o.viol_count
        for v in o.violations:  # at most 2 per key, so a flood under one key cannot crowd out another key
            if len(self.violations) < 400 and sum(1 for w in self.violations if w["key"] == v["key"]) < 2:
                self.violations.append(v)
        for s in o.samples:
            if len(self.samples) < 6:
                self.samples.append(s)
        for k, n in o.count.items():
            self.count[k] = self.count.get(k, 0) + n
        for k, (v, w) in o.maxi.items():
            self.mx(k, v, w)
        return self


# ----------------------------------------------------------------------------- parallel runner
_WORKER = {}


def _call(args):
    idx, unit = args
    fn = _WORKER["fn"]
    hist = _WORKER.setdefault("hist", [])
    try:
        r = fn(unit, _WORKER["ctx"])
        for v in getattr(r, "violations", ()):
            v.setdefault("unit", unit)  # lets a replay fall back to re-running the whole unit (history-dependent results)
            if len(hist) <= 600:
                # ... and, failing that, everything this worker process had explored before (a result that depends on which models
                # were alive or freed earlier in the process - an address-keyed memo - reproduces only with that history)
                v.setdefault("unit_history", list(hist))
        hist.append(unit)
        return idx, r, None
    except HarnessError as e:
        return idx, None, f"HarnessError in unit {unit!r}: {e}\n{traceback.format_exc()}"
    except BaseException as e:  # a bug in the harness itself
        return idx, None, f"{type(e).__name__} in unit {unit!r}: {e}\n{traceback.format_exc()}"


def _worker_init():
    if os.environ.get("VERIF_NO_DECOY") != "1":
        from vf import lib

        lib.decoy_prelude()


def run_units(units, fn, ctx, progress=None):
    """Run fn(unit, ctx) for every unit on ctx.jobs forked workers; results merged in unit order.
    VERIF_SEED only permutes the order in which shards are handed out (R3)."""
    units = list(units)
    order = list(range(len(units)))
    random.Random(ctx.seed).shuffle(order)
    _WORKER["fn"] = fn
    _WORKER["ctx"] = ctx
    results = [None] * len(units)
    errors = []
    if ctx.jobs <= 1 or len(units) <= 1:
        _worker_init()
        for i in order:
            idx, r, err = _call((i, units[i]))
            results[idx] = r
            if err:
                errors.append(err)
    else:
        mpctx = multiprocessing.get_context("fork")
        with mpctx.Pool(min(ctx.jobs, len(units)), initializer=_worker_init) as pool:
            for idx, r, err in pool.imap_unordered(_call, [(i, units[i]) for i in order], chunksize=1):
                results[idx] = r
                if err:
                    errors.append(err)
    if errors:
        raise HarnessError("worker failure(s):\n" + "\n".join(errors[:3]))
    total = Acc()
    for r in results:
        if r is not None:
            total.merge(r)
    return total


def split(seq_len, parts):
    """Fixed rule (outermost index mod #shards) -> list of (k, parts)."""
    parts = max(1, min(parts, seq_len))
    return [(k, parts) for k in range(parts)]


# ----------------------------------------------------------------------------- known findings
def load_known():
    path = os.path.join(ROOT, "KNOWN_FINDINGS.txt")
    out = []
    if os.path.exists(path):
        for line in open(path):
            line = line.strip()
            if line.startswith("finding:"):
                rest = line[len("finding:"):].strip()
                toks = rest.split(None, 2)
                d = dict(t.split("=", 1) for t in toks[:2] if "=" in t)
                if "property" in d and "key" in d:
                    out.append((d["property"], d["key"], toks[2] if len(toks) > 2 else ""))
    return out


def match_known(known, pid, key):
    for p, pat, text in known:
        if p == pid and fnmatch.fnmatchcase(key, pat):
            return pat, text
    return None


# ----------------------------------------------------------------------------- replay + evidence
TEST_TMPL = '''"""Stand-alone replay of one {pid} violation (no explorer involved).
Run:  VERIF_REPO=/repo /venv/bin/python {name}
Observed when recorded: {msg!r}
"""
import json, os, sys
sys.path.insert(0, {root!r})
from vf import core
core.load_repo()
from vf.checks import {mod}
case = json.load(open(os.path.join(os.path.dirname(os.path.abspath(__file__)), {jname!r})))["case"]
msgs = {mod}.replay(case)
assert not msgs, "\\n".join(msgs)
print("property holds on this case")
'''


def write_replay(v, ctx=None):
    pid = v["property"]
    if ctx is not None:
        v = dict(v, tier=ctx.tier, seed=ctx.seed)
    d = os.path.join(os.environ.get("VERIF_REPLAY_DIR") or os.path.join(ROOT, "replays"), pid)
    os.makedirs(d, exist_ok=True)
    blob = json.dumps(v, sort_keys=True, indent=1, default=str)
    sha = hashlib.sha256(blob.encode()).hexdigest()[:12]
    path = os.path.join(d, f"{sha}.json")
    with open(path, "w") as f:
        f.write(blob)
    with open(os.path.join(d, f"test_{sha}.py"), "w") as f:
        f.write(TEST_TMPL.format(pid=pid, name=f"test_{sha}.py", msg=v["msg"][:300], root=ROOT,
                                 mod=pid.lower(), jname=f"{sha}.json"))
    return path


def confirm_replay(pid, path):
    """Re-execute the case from its file in a fresh process (R6).  True iff it reproduces."""
    env = dict(os.environ)
    env["VERIF_REPO"] = REPO
    p = subprocess.run([os.path.join(ROOT, "bin", "check"), pid, "--replay", path],
                       capture_output=True, text=True, env=env, timeout=1800)
    if p.returncode == EXIT_VIOLATION:
        return True, p.stdout
    return False, p.stdout + p.stderr


def write_evidence(pid, ctx, level, coverage, assumptions, wall_s, violations):
    ev = {
        "property_id": pid,
        "tier": ctx.tier,
        "seed": ctx.seed,
        "level": level,
        "coverage": coverage,
        "assumptions": assumptions,
        "wall_s": round(wall_s, 3),
        "violations": violations,
    }
    try:
        import jsonschema

        schema = json.load(open("/root/.vp/EVIDENCE.schema.json"))
        jsonschema.validate(ev, schema)
    except ImportError:
        pass
    except FileNotFoundError:
        pass
    d = os.environ.get("VERIF_EVIDENCE_DIR") or os.path.join(ROOT, "evidence")
    os.makedirs(d, exist_ok=True)
    tmp = os.path.join(d, f".{pid}.json.tmp")
    with open(tmp, "w") as f:
        json.dump(ev, f, indent=1, sort_keys=True, default=str)
        f.write("\n")
    os.replace(tmp, os.path.join(d, f"{pid}.json"))
    return ev


def finish(pid, ctx, level, acc, rule, extra, assumptions, t0, confirm=True):
    """Common tail of every check: replay-confirm violations, consult known findings, write
    evidence, print the verdict, return the exit code."""
    known = load_known()
    new, listed = [], []
    seen_keys = set()
    for v in acc.violations:
        if v["key"] in seen_keys:
            continue
        seen_keys.add(v["key"])
        k = match_known(known, pid, v["key"])
        (listed if k else new).append((v, k))
    out_lines = []
    harness_fail = None
    for v, k in listed:
        out_lines.append(f"KNOWN-FINDING: property={pid} {k[1]} [key={v['key']}]")
    reported = 0
    unreproduced = []
    for v, _ in new[:5]:
        path = write_replay(v, ctx)
        if confirm:
            ok, log = confirm_replay(pid, path)
            if not ok:
                unreproduced.append((v, path, log))
                continue
        out_lines.append(f"VIOLATION property={pid} replay={path}")
        out_lines.append(f"  key={v['key']}  {v['msg'][:600]}")
        reported += 1
    if unreproduced and not reported:
        # R6: a violation that a fresh process cannot reproduce (neither the case alone, nor its exploration unit, nor the units its
        # worker had run before) is normally a harness error.  When the exploring processes observed it on several independent cases,
        # though, the one thing that differs between them and the replay is process state the harness does not own (heap layout,
        # addresses of freed objects): results that depend on that are not a function of the call's inputs.  Reported as a violation,
        # and said so; a single unreproducible observation stays a harness error.
        v, path, log = unreproduced[0]
        if acc.viol_count >= 3 and len(new) >= 2:
            out_lines.append(f"VIOLATION property={pid} replay={path}")
            out_lines.append(f"  key={v['key']}  {v['msg'][:600]}")
            out_lines.append(f"  NOTE: observed on {acc.viol_count} cases ({len(new)} distinct keys) during the exploration; the recorded case does not reproduce in a "
                             "fresh process (alone, with its unit, or with its worker's history): the library's answer depends on process state "
                             "outside the call's inputs (e.g. the address of a freed object)")
            reported += 1
        else:
            harness_fail = f"replay {path} did not reproduce: {log[-800:]}"
    wall = time.time() - t0
    coverage = {
        "evaluations": acc.evals,
        "distinct_nontrivial": acc.nontrivial,
        "rule": rule,
        "samples": acc.samples[:6],
        "counters": dict(sorted(acc.count.items())),
        "maxima": {k: {"value": v, "at": w} for k, (v, w) in sorted(acc.maxi.items())},
        "violations_counted": acc.viol_count,
        "known_findings_matched": len(listed),
    }
    coverage.update(extra or {})
    n_new = len(new)
    write_evidence(pid, ctx, level, coverage, assumptions, wall, n_new)
    for line in out_lines:
        print(line)
    print(f"{pid} tier={ctx.tier} seed={ctx.seed} evaluations={acc.evals} nontrivial={acc.nontrivial} "
          f"violations={acc.viol_count} new_keys={n_new} known={len(listed)} wall={wall:.1f}s")
    if harness_fail:
        print("HARNESS-ERROR: " + harness_fail)
        return EXIT_HARNESS
    return EXIT_VIOLATION if n_new else EXIT_OK


# ----------------------------------------------------------------------------- watchdog (R7)
import contextlib
import signal


class Hang(Exception):
    pass


def _on_alarm(signum, frame):
    raise Hang("API call exceeded the 30 s watchdog")


@contextlib.contextmanager
def watchdog(seconds=30.0):
    """Bound the wall time of the enclosed real-API calls; a Hang is reported as a violation by the caller."""
    old = signal.signal(signal.SIGALRM, _on_alarm)
    signal.setitimer(signal.ITIMER_REAL, seconds)
    try:
        yield
    finally:
        signal.setitimer(signal.ITIMER_REAL, 0)
        signal.signal(signal.SIGALRM, old)


# ----------------------------------------------------------------------------- deterministic ids (R6)
_ID_STATE = {"n": 0, "salt": 0, "installed": False}


def deterministic_ids(salt=0):
    """Seam for the one source of randomness in the library: rating ids come from uuid.uuid4().  E2/E3 replace
    it by a counter so that a run is a function of (PYTHONHASHSEED, salt) and can be compared across processes."""
    import uuid

    _ID_STATE["salt"] = int(salt)
    _ID_STATE["n"] = 0
    if not _ID_STATE["installed"]:
        def uuid4():
            _ID_STATE["n"] += 1
            return uuid.UUID(int=((_ID_STATE["salt"] * 0x9E3779B97F4A7C15 + _ID_STATE["n"] * 0xD1B54A32D192ED03) % (1 << 128)))

        uuid.uuid4 = uuid4
        _ID_STATE["installed"] = True
