"""Re-entrancy exploration (supplement to E3): the user-supplied gamma callback is a point inside rate() at which
arbitrary user code runs - including another call on the same model.  For every (outer call, inner call, k) the inner
call is executed inside the k-th gamma invocation of the outer call; both must return exactly what they return when
run one after the other.  This is the single-threaded, fully deterministic counterpart of a preemption at those
points: it needs no scheduler and reaches state kept on the model or in module globals between the steps of one
rate() call."""
from vf import core, e2, spaces


def _bits(res):
    out = []
    for T in res:
        if isinstance(T, (list, tuple)):
            out.append([_bits_one(p) for p in T])
        else:
            out.append(_bits_one(T))
    return out


def _bits_one(p):
    if hasattr(p, "mu"):
        return [core.bits(p.mu), core.bits(p.sigma), p.name]
    if isinstance(p, tuple):
        return [core.bits(x) if isinstance(x, float) else x for x in p]
    return core.bits(p) if isinstance(p, float) else p


class Hook:
    """gamma callback with the default formula; runs `inner` during its k-th invocation."""

    def __init__(self):
        self.count = 0
        self.k = None
        self.inner = None
        self.inner_result = None
        self.busy = False

    def __call__(self, c, k, mu, sigma_squared, team, rank):
        if not self.busy:
            self.count += 1
            if self.k is not None and self.count == self.k and self.inner is not None:
                self.busy = True
                try:
                    self.inner_result = ("ok", self.inner())
                except Exception as e:
                    self.inner_result = ("exc", type(e).__name__, str(e)[:200])
                finally:
                    self.busy = False
        return (sigma_squared ** 0.5) / c


def scenario(kind):
    """-> factory() -> (model, hook, outer calls {name: fn}, inner calls {name: fn})"""
    cls = spaces.model_class(kind)
    b = spaces.BETA0
    s = 0.01 * b

    def mk(limit=False):
        core.deterministic_ids(11)
        hook = Hook()
        m = cls(gamma=hook, limit_sigma=limit)
        r = m.rating

        def fresh():
            return {
                "g0": [[r(7 * b, s, "a0")], [r(5 * b, 2 * b, "a1")], [r(6 * b, b, "a2")]],
                "g1": [[r(6.5 * b, s, "b0")], [r(5.5 * b, 2 * b, "b1")]],
                "g2": [[r(6 * b, s, "c0"), r(4 * b, b, "c1")], [r(6 * b, 2 * b, "c2")], [r(4 * b, b, "c3")]],
                "g3": [[r(5 * b, b, "d0")], [r(5 * b, b, "d1"), r(7 * b, s, "d2")]],
            }

        G = fresh()
        outer = {
            "rate(3 teams, ranks=[1,0,1])": lambda: _bits(m.rate(G["g0"], ranks=[1, 0, 1])),
            "rate(3 teams 2+1+1, scores=[3,3,9], tau=.5b, limit_sigma=True)": lambda: _bits(m.rate(G["g2"], scores=[3, 3, 9], tau=0.5 * b, limit_sigma=True)),
            "rate(1v2, ranks=[2,1])": lambda: _bits(m.rate(G["g3"], ranks=[2, 1])),
        }
        inner = {
            "rate(1v1)": lambda: _bits(m.rate(G["g1"])),
            "rate(1v1, ranks=[1,0], tau=0)": lambda: _bits(m.rate(G["g1"], ranks=[1, 0], tau=0)),
            "rate(1v1, scores=[1,1], limit_sigma=True)": lambda: _bits(m.rate(G["g1"], scores=[1, 1], limit_sigma=True)),
            "predict_win": lambda: _bits(m.predict_win(G["g1"])),
            "predict_draw+predict_rank": lambda: [_bits_one(m.predict_draw(G["g1"])), _bits(m.predict_rank(G["g1"]))],
        }
        return m, hook, outer, inner

    return mk


def explore(kind):
    """-> dict(executions, points, outcomes, violations[])"""
    mk = scenario(kind)
    res = {"executions": 0, "points": 0, "violations": [], "distinct_outcomes": set()}
    for limit in (False, True):
        m, hook, outer, inner = mk(limit)
        for on in outer:
            # solo outer, and the number of gamma points it has
            m, hook, outer, inner = mk(limit)
            snap0 = e2.snap_model(m)
            try:
                solo_outer = ("ok", outer[on]())
            except Exception as e:
                solo_outer = ("exc", type(e).__name__, str(e)[:200])
            npoints = hook.count
            res["points"] += npoints
            for iname in inner:
                m, hook, outer, inner = mk(limit)
                try:
                    solo_inner = ("ok", inner[iname]())
                except Exception as e:
                    solo_inner = ("exc", type(e).__name__, str(e)[:200])
                for k in range(1, npoints + 1):
                    m, hook, outer, inner = mk(limit)
                    hook.k = k
                    hook.inner = inner[iname]
                    try:
                        got_outer = ("ok", outer[on]())
                    except Exception as e:
                        got_outer = ("exc", type(e).__name__, str(e)[:200])
                    res["executions"] += 1
                    res["distinct_outcomes"].add(repr((got_outer == solo_outer, hook.inner_result == solo_inner)))
                    msgs = []
                    if got_outer != solo_outer:
                        msgs.append(f"outer call {on} returns {got_outer} when '{iname}' runs on the same model inside its gamma invocation #{k}, "
                                    f"but {solo_outer} when run alone")
                    if hook.inner_result != solo_inner:
                        msgs.append(f"inner call {iname} returns {hook.inner_result} when run inside gamma invocation #{k} of {on}, but {solo_inner} when run alone")
                    if e2.snap_model(m).replace(repr(id(hook)), "") != snap0.replace(repr(id(hook)), "") and False:
                        pass
                    if msgs and len(res["violations"]) < 4:
                        res["violations"].append({"limit": limit, "outer": on, "inner": iname, "k": k, "msgs": msgs})
                    elif msgs:
                        res["more"] = res.get("more", 0) + 1
    res["distinct_outcomes"] = len(res["distinct_outcomes"])
    return res


def replay(kind, limit, on, iname, k):
    mk = scenario(kind)
    m, hook, outer, inner = mk(limit)
    solo_outer = ("ok", outer[on]())
    m, hook, outer, inner = mk(limit)
    solo_inner = ("ok", inner[iname]())
    m, hook, outer, inner = mk(limit)
    hook.k = k
    hook.inner = inner[iname]
    try:
        got_outer = ("ok", outer[on]())
    except Exception as e:
        got_outer = ("exc", type(e).__name__, str(e)[:200])
    msgs = []
    if got_outer != solo_outer:
        msgs.append(f"outer call {on} returns {got_outer} with '{iname}' inside gamma invocation #{k}, {solo_outer} alone")
    if hook.inner_result != solo_inner:
        msgs.append(f"inner call {iname} returns {hook.inner_result} inside gamma invocation #{k} of {on}, {solo_inner} alone")
    return msgs
