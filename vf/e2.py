"""E2 - explicit-state breadth-first search over call histories, on the real transition function
(DESIGN §3-E2).  A state is represented by the history that reaches it and is rebuilt by replaying that
history on fresh objects; successors are deduplicated on a canonical form; invariants I1-I7 are
evaluated on every transition.  Level-synchronous: the parent owns the seen-set, workers expand
frontier chunks."""
import copy
import hashlib
import sys
import types

from vf import core, spaces

LEAGUE = [(6, 2), (7, 0.01), (5, 0.5), (6, 2)]  # β-units; p1's tiny sigma makes tau / limit_sigma visible
MATCHUPS = [((0,), (1,)), ((2,), (3,)), ((0,), (2,)), ((0, 1), (2, 3)), ((0,), (1,), (2,))]
TWINS = ((0,), (3,))  # p0 and p3 carry the same values: in the same-id leg of I2 the two teams are equal in values AND ids (a team and its deepcopy)
MODEL_CFGS = {"default": {}, "limit": {"limit_sigma": True}, "tau0": {"tau_b": 0.0}, "tau2b": {"tau_b": 2.0}}


def fb(x):
    return x.hex() if type(x) is float else f"{type(x).__name__}:{x!r}"


# --------------------------------------------------------------------------- snapshots
def snap_obj(v, depth=3):
    if type(v) is float:
        return v.hex()
    if isinstance(v, (int, str, bool, type(None), bytes)):
        return f"{type(v).__name__}:{v!r}"
    if isinstance(v, type):
        return f"class:{v.__module__}.{v.__qualname__}"
    if callable(v) and hasattr(v, "__qualname__"):
        extra = ""
        if hasattr(v, "cache_info"):
            extra = repr(v.cache_info())
        return f"fn:{getattr(v, '__module__', '?')}.{v.__qualname__}{extra}"
    if type(v).__name__ in ("lock", "RLock", "SchedLock", "Semaphore", "BoundedSemaphore", "Condition", "Event"):
        # synchronisation objects have no __dict__; their state (locked / owner / count) is in the repr
        import re as _re

        if type(v).__name__ == "SchedLock":
            return f"SchedLock(locked={v.owner is not None},count={v.count})"
        r = _re.sub(r"0x[0-9a-fA-F]+|owner=\d+", "", repr(v))
        return f"sync:{r}"
    if depth <= 0:
        return f"<{type(v).__name__}>"
    if isinstance(v, dict):
        return "{" + ",".join(sorted(f"{snap_obj(k, depth - 1)}:{snap_obj(x, depth - 1)}" for k, x in v.items())) + "}"
    if isinstance(v, (list, tuple)):
        return "[" + ",".join(snap_obj(x, depth - 1) for x in v) + "]"
    if isinstance(v, (set, frozenset)):
        return "{" + ",".join(sorted(snap_obj(x, depth - 1) for x in v)) + "}"
    d = getattr(v, "__dict__", None)
    if d is not None:
        return f"{type(v).__name__}" + snap_obj(d, depth - 1)
    slots = getattr(type(v), "__slots__", None)
    if slots:
        return f"{type(v).__name__}(" + ",".join(f"{s}={snap_obj(getattr(v, s, None), depth - 1)}" for s in slots) + ")"
    return f"<{type(v).__name__}>"


def snap_model(m):
    return snap_obj(dict(m.__dict__), 4)


def _fn_defaults(f):
    out = []
    for d in (f.__defaults__ or ()):
        if isinstance(d, (list, dict, set, bytearray)):
            out.append(d)
    for d in (f.__kwdefaults__ or {}).values():
        if isinstance(d, (list, dict, set, bytearray)):
            out.append(d)
    return out


_PLAN = {"sig": None, "entries": None}


def _ns_list():
    if _PLAN.get("nmods") != len(sys.modules):
        out = []
        for name in sorted(sys.modules):
            if name == "openskill" or name.startswith("openskill."):
                mod = sys.modules[name]
                if mod is not None:
                    out.append((name, vars(mod)))
        _PLAN["ns"] = out
        _PLAN["nmods"] = len(sys.modules)
    return _PLAN["ns"]


def _build_plan():
    """Walk the loaded openskill modules once and list what has to be re-read on every snapshot."""
    entries = []
    sizes = []
    for name, ns in _ns_list():
        sizes.append((name, ns))
        for k in sorted(ns):
            v = ns[k]
            if k.startswith("__") and k != "__all__":
                continue
            if isinstance(v, types.ModuleType) or type(v).__module__ == "typing":
                continue
            if isinstance(v, types.FunctionType):
                if v.__module__ != name:
                    continue
                for d in _fn_defaults(v):
                    entries.append(("obj", f"{name}.{k}.default", d))
                entries.append(("fnattrs", f"{name}.{k}.attrs", v))
            elif isinstance(v, type):
                if v.__module__ != name:
                    continue
                cd = vars(v)
                sizes.append((f"{name}.{k}", cd))
                for ck in sorted(cd):
                    cv = cd[ck]
                    if isinstance(cv, (staticmethod, classmethod)):
                        cv = cv.__func__
                    if isinstance(cv, types.FunctionType):
                        for d in _fn_defaults(cv):
                            entries.append(("obj", f"{name}.{k}.{ck}.default", d))
                        entries.append(("fnattrs", f"{name}.{k}.{ck}.attrs", cv))
                    elif hasattr(cv, "cache_info"):
                        entries.append(("cache", f"{name}.{k}.{ck}.cache", cv))
                    elif not ck.startswith("__") and not callable(cv) and not isinstance(cv, property):
                        entries.append(("val", f"{name}.{k}.{ck}", cd, ck))
            elif hasattr(v, "cache_info"):
                entries.append(("cache", f"{name}.{k}.cache", v))
            else:
                entries.append(("val", f"{name}.{k}", ns, k))
    return sizes, entries


def snap_globals():
    """Every module-level value, mutable function default, function attribute, class attribute and functools
    cache reachable from the loaded openskill modules, plus the namespace sizes (so lazily created globals
    show up).  The walk is planned once and re-planned whenever a namespace changes size."""
    sig = tuple((name, id(ns), len(ns)) for name, ns in _ns_list())
    if _PLAN["sig"] != sig or _PLAN["entries"] is None:
        _PLAN["sizes"], _PLAN["entries"] = _build_plan()
        _PLAN["sig"] = sig
    out = [f"{label}#{len(d)}" for label, d in _PLAN["sizes"]]
    csig = tuple(len(d) for _, d in _PLAN["sizes"])
    if _PLAN.get("csig") != csig:
        _PLAN["sizes"], _PLAN["entries"] = _build_plan()
        _PLAN["csig"] = tuple(len(d) for _, d in _PLAN["sizes"])
        out = [f"{label}#{len(d)}" for label, d in _PLAN["sizes"]]
    for e in _PLAN["entries"]:
        kind = e[0]
        if kind == "val":
            out.append(f"{e[1]}={snap_obj(e[2].get(e[3]))}")
        elif kind == "obj":
            out.append(f"{e[1]}={snap_obj(e[2])}")
        elif kind == "fnattrs":
            if e[2].__dict__:
                out.append(f"{e[1]}={snap_obj(e[2].__dict__)}")
        else:
            out.append(f"{e[1]}={e[2].cache_info()!r}")
    return tuple(out)


def snap_rating(p):
    d = dict(p.__dict__)
    d.pop("id", None)
    return snap_obj(d, 2)


def public_rating(p):
    """what C20 promises survives a store/restore or a deepcopy: the values and the name (private bookkeeping attributes a
    library may keep on a rating are not part of it)"""
    return (fb(p.mu), fb(p.sigma), p.name)


# --------------------------------------------------------------------------- the system under search
class Search:
    """One (model class, model config, operation alphabet) search."""

    def __init__(self, kind, mcfg, ops_name):
        self.kind = kind
        self.mcfg = mcfg
        self.ops_name = ops_name
        self.cfg = spaces.Cfg(mcfg, **MODEL_CFGS[mcfg])
        self.ops = OPS[ops_name](self.cfg.beta)
        self.cls = spaces.model_class(kind)

    def key(self):
        return (self.kind, self.mcfg, self.ops_name)

    def fresh(self, values=None, prefix="p"):
        m = self.cfg.make(self.kind)
        b = self.cfg.beta
        if values is None:
            values = [(a * b, s * b) for (a, s) in LEAGUE]
        L = [m.rating(mu, sg, name=f"{prefix}{i}") for i, (mu, sg) in enumerate(values)]
        return m, L

    WARM = [MATCHUPS[3], MATCHUPS[4], MATCHUPS[0]]

    def build(self, hist):
        """The state reached by `hist` from the WARM initial state: every predictor has already been asked about three
        matchups with the live rating objects ("start from non-initial states too": whatever a model or a module keeps
        from earlier predictions is present, and stale, when the history's rate calls change the values)."""
        m, L = self.fresh()
        for mt in self.WARM:
            t = [[L[i] for i in T] for T in mt]
            m.predict_win(t)
            m.predict_draw(t)
            m.predict_rank(t)
        # ... and the model has rated before: two games between SCRATCH ratings that carry the league's values (whatever the model,
        # its class or a module remembers per value - a table keyed by sigma, a last-outcome memo - is filled when the history starts)
        S = [m.rating(p.mu, p.sigma, name=f"scratch{i}") for i, p in enumerate(L)] + [m.rating(L[0].mu, L[0].sigma, name="scratch4")]
        m.rate([[S[0]], [S[1]]], ranks=[1, 0])
        m.rate([[S[2]], [S[3]], [S[4]]], scores=[1, 2, 1])
        for oi in hist:
            self.apply(m, L, self.ops[oi])
        return m, L

    def _predictions(self, m, L):
        out = []
        for mt in self.WARM[:2]:
            t = [[L[i] for i in T] for T in mt]
            out.append([fb(x) for x in m.predict_win(t)])
            out.append(fb(m.predict_draw(t)))
            out.append([[fb(a), fb(b)] for a, b in m.predict_rank(t)])
        return out

    def state(self, m, L):
        return (snap_model(m), tuple(snap_rating(p) for p in L), snap_globals())

    # ------------------------------------------------------------------ transitions
    def apply(self, m, L, op, checks=None):
        """Execute one real API call on the live objects; returns the observation (JSON-able).
        `checks`, when given, collects (invariant, message) for the per-call invariants I4, I5, I7."""
        kind = op[0]
        if kind == "rate":
            _, mt, r, tau, ls, enc = op
            kw = {}
            if tau is not None:
                kw["tau"] = tau
            if ls is not None:
                kw["limit_sigma"] = ls
            if enc == "scores":
                # positive integer scores as applications give them (2-1, 1-1, 1-2 ...): the library negates them, so the rank
                # values it works with are -1, -2, ... - the only small ints whose CPython hashes collide (hash(-1) == hash(-2)),
                # which a hash-keyed memo of the outcome vector turns into a stale answer for the next game
                kw["scores"] = [max(r) + 1 - x for x in r]
            else:
                kw["ranks"] = list(r)
            teams = [[L[i] for i in t] for t in mt]
            ids = [[(p.id, p.name) for p in T] for T in teams]
            arg0 = ([list(T) for T in teams], {k: (list(v) if isinstance(v, list) else v) for k, v in kw.items()})
            out = m.rate(teams, **kw)
            if checks is not None:
                # I8: a valid call leaves its argument containers as they were (a caller that re-uses its ranks list or its
                # team lists would otherwise get answers that depend on the earlier call)
                same_teams = len(teams) == len(arg0[0]) and all(len(a) == len(b_) and all(x is y for x, y in zip(a, b_)) for a, b_ in zip(teams, arg0[0]))
                same_kw = all((kw[k] == v and [type(x) for x in kw[k]] == [type(x) for x in v]) if isinstance(v, list) else kw[k] is v for k, v in arg0[1].items())
                if not (same_teams and same_kw):
                    checks.append(("I8", f"the call modified its argument containers: teams structure unchanged={same_teams}; "
                                         f"keyword arguments now {kw} (were {arg0[1]})"))
                shape_ok = isinstance(out, list) and len(out) == len(teams) and all(
                    isinstance(o, list) and len(o) == len(T) for o, T in zip(out, teams))
                if not shape_ok:
                    checks.append(("I7", f"result nesting {[len(o) for o in out]} differs from argument {[len(T) for T in teams]}"))
                else:
                    got = [[(p.id, p.name) for p in T] for T in out]
                    if got != ids:
                        checks.append(("I7", f"ids/names of the result {got} differ from the argument's {ids}"))
            for t, to in zip(mt, out):
                for i, p in zip(t, to):
                    L[i] = p
            return ["rate"] + [[fb(p.mu), fb(p.sigma)] for to in out for p in to]
        if kind in ("predict_win", "predict_draw", "predict_rank"):
            res = getattr(m, kind)([[L[i] for i in t] for t in op[1]])
            if kind == "predict_draw":
                return [kind, fb(res)]
            if kind == "predict_win":
                return [kind] + [fb(x) for x in res]
            return [kind] + [[fb(a), fb(b)] for (a, b) in res]
        if kind == "bad":
            name, fn = op[1], BAD[op[1]]
            before = self.state(m, L)
            args_before = None
            try:
                holder = {}
                res = fn(self, m, L, holder)
                outcome = ("returned", repr(res)[:80])
            except (TypeError, ValueError) as e:
                outcome = ("rejected", type(e).__name__)
            except Exception as e:
                outcome = ("other", type(e).__name__ + ": " + str(e)[:80])
            if checks is not None:
                if outcome[0] != "rejected":
                    checks.append(("I4", f"malformed call {name} {outcome[0]} {outcome[1]} instead of raising TypeError/ValueError"))
                after = self.state(m, L)
                if after != before:
                    checks.append(("I4", f"malformed call {name} changed the state: {diff_state(before, after)}"))
                for label, obj, snap0 in holder.get("watch", []):
                    if snap_obj(obj) != snap0:
                        checks.append(("I4", f"malformed call {name} modified {label} inside its argument"))
            return ["bad", name, outcome[0], outcome[1] if outcome[0] == "rejected" else ""]
        if kind == "foreign":
            # ANOTHER model object of the same class with other parameters rates and predicts games between other rating objects that
            # carry the league's current values, and is dropped: nothing the history's own model returns afterwards may depend on it
            # (class-level tables tagged per instance, memos keyed by id(model) whose address is reused, ...)
            b = self.cfg.beta
            fm = self.cls(beta=b * 3.0 + 0.123, kappa=3e-3, tau=0.4 * b, limit_sigma=not self.cfg.limit_sigma)
            F = [fm.rating(p.mu, p.sigma, name=f"f{i}") for i, p in enumerate(L)] + [fm.rating(L[0].mu, L[0].sigma)]
            fm.rate([[F[0]], [F[1]]], ranks=[0, 1])
            fm.rate([[F[2]], [F[3]], [F[4]]], ranks=[0, 0, 1])
            G = [[fm.rating(p.mu, p.sigma)] for p in L[:3]]
            fm.predict_win(G), fm.predict_draw(G), fm.predict_rank(G)
            del fm
            return ["foreign"]
        if kind == "mutate":
            # values changed by the application, not by rate(): mu and sigma are plain public attributes
            L[0].mu = L[0].mu + 0.5 * self.cfg.beta
            L[1].sigma = L[1].sigma * 2.0
            return ["mutate"]
        if kind in ("restore", "deepcopy") and checks is not None:
            try:
                pred_before = self._predictions(m, L)
            except Exception as e:
                pred_before = ["raised", type(e).__name__]
        if kind == "restore":
            how = op[1]
            old = list(L)
            for i, p in enumerate(old):
                if how == "create_rating":
                    L[i] = m.create_rating([p.mu, p.sigma], p.name)
                else:
                    L[i] = m.rating(p.mu, p.sigma, p.name)
            if checks is not None:
                ids = [p.id for p in L]
                if len(set(ids)) != len(ids) or set(ids) & {p.id for p in old}:
                    checks.append(("I5", f"restore via {how} did not give fresh unique ids"))
                for p, q in zip(old, L):
                    if public_rating(p) != public_rating(q):
                        checks.append(("I5", f"restore via {how} changed a rating: {public_rating(p)} -> {public_rating(q)}"))
                self._check_pred_after(m, L, pred_before, f"restore via {how}", checks)
            return ["restore", how]
        if kind == "deepcopy":
            old = list(L)
            new = copy.deepcopy([old[:2], old[2:]])
            flat = new[0] + new[1]
            if checks is not None:
                for p, q in zip(old, flat):
                    if q is p:
                        checks.append(("I5", "deepcopy returned the same object"))
                    if q.id != p.id or public_rating(p) != public_rating(q):
                        checks.append(("I5", f"deepcopy changed a rating: id {p.id}->{q.id} {public_rating(p)} -> {public_rating(q)}"))
            L[:] = flat
            if checks is not None:
                self._check_pred_after(m, L, pred_before, "deepcopy", checks)
            return ["deepcopy"]
        raise core.HarnessError(f"unknown op {op!r}")

    def _check_pred_after(self, m, L, pred_before, what, checks):
        try:
            pred_after = self._predictions(m, L)
        except Exception as e:
            pred_after = ["raised", type(e).__name__]
        if pred_after != pred_before:
            checks.append(("I5", f"predictions with the players after {what} differ from those with the original objects "
                                 f"(same values): {pred_after} vs {pred_before}"))

    # ------------------------------------------------------------------ one transition with all invariants
    def step(self, hist, oi, init_model_snap):
        """-> (digest of successor, observation, violations [(inv, msg)], globals_changed)"""
        op = self.ops[oi]
        try:
            m, L = self.build(hist)
        except core.HarnessError:
            raise
        except Exception as e:
            # every call of the warm-up and of a history is valid: an exception here is the library's (R7), typically state left behind
            # by an earlier call in this process (a rejected call that poisoned a default argument, a stuck re-entrancy guard)
            return None, None, [("R7", f"a valid call of the warm-up / of the history {[describe(self.ops[h]) for h in hist]} raised "
                                       f"{type(e).__name__}: {e} - state left behind by an earlier call in this process")], False
        vals = [(p.mu, p.sigma) for p in L]
        g0 = snap_globals()
        viol = []
        try:
            obs = self.apply(m, L, op, viol)
        except Exception as e:
            viol.append(("R7", f"valid call {describe(op)} raised {type(e).__name__}: {e}"))
            return None, None, viol, False
        s1 = self.state(m, L)
        # I1: the model object is never modified
        if s1[0] != init_model_snap:
            viol.append(("I1", f"model attributes changed by {describe(op)}: {diff_snap(init_model_snap, s1[0])}"))
        # I2: differential against fresh model + fresh ratings carrying the same bits
        mf, Lf = self.fresh(vals, prefix="fresh")
        try:
            obs_f = self.apply(mf, Lf, op)
        except Exception as e:
            obs_f = ["raised", type(e).__name__]
        succ = [(fb(p.mu), fb(p.sigma)) for p in L]
        succ_f = [(fb(p.mu), fb(p.sigma)) for p in Lf]
        if obs != obs_f or succ != succ_f:
            viol.append(("I2", f"{describe(op)} after history {[describe(self.ops[h]) for h in hist]} returns {obs} / league {succ}; "
                               f"the same call on a fresh model and fresh ratings with the same values returns {obs_f} / {succ_f}"))
        # I2 (ids): the same call on fresh objects that all carry ONE id and ONE name (ids are application data:
        # deepcopy keeps them, applications assign them) must again give identical numbers
        if op[0] in ("rate", "predict_win", "predict_draw", "predict_rank"):
            mi, Li = self.fresh(vals, prefix="same")
            for p in Li:
                p.id = "0" * 32
                p.name = "same"
            try:
                obs_i = self.apply(mi, Li, op)
            except Exception as e:
                obs_i = ["raised", type(e).__name__]
            succ_i = [(fb(p.mu), fb(p.sigma)) for p in Li]
            if obs != obs_i or succ != succ_i:
                viol.append(("I2", f"{describe(op)} returns {obs} / league {succ} but {obs_i} / {succ_i} when every rating carries the same id and name "
                                   f"(values identical): the numbers depend on rating ids"))
        if op[0] == "rate":
            _, mt, r, tau, ls, enc = op
            # I3: sigma bounds
            tau_eff = self.cfg.tau if tau is None else float(tau)
            lim = self.cfg.limit_sigma if ls is None else ls
            touched = [i for t in mt for i in t]
            for i in touched:
                prior = vals[i][1]
                post = L[i].sigma
                cap = (prior * prior + tau_eff * tau_eff) ** 0.5
                ok = (post == post) and post > 0 and post != float("inf") and post <= cap * (1 + 1e-15)
                if lim:
                    ok = ok and post <= prior
                if not ok:
                    viol.append(("I3", f"{describe(op)}: player {i} sigma {prior!r} -> {post!r} (tau_eff={tau_eff!r}, cap {cap!r}, limit_sigma={lim})"))
            # I6: per-call options == model-level options
            if tau is not None or ls is not None:
                kw = self.cfg.kwargs()
                if tau is not None:
                    kw["tau"] = tau
                if ls is not None:
                    kw["limit_sigma"] = ls
                m6 = self.cls(**kw)
                L6 = [m6.rating(mu, sg) for (mu, sg) in vals]
                plain = ("rate", mt, r, None, None, enc)
                try:
                    self.apply(m6, L6, plain)
                    for i in touched:
                        a, b_ = (L[i].mu, L[i].sigma), (L6[i].mu, L6[i].sigma)
                        if abs(a[0] - b_[0]) > 1e-12 * (abs(a[0]) + abs(b_[0]) + vals[i][1]) or abs(a[1] - b_[1]) > 1e-12 * (a[1] + b_[1]):
                            viol.append(("I6", f"{describe(op)}: player {i} gets {a}, a model built with those options gives {b_}"))
                            break
                except Exception as e:
                    viol.append(("I6", f"model built with the per-call options raised {type(e).__name__}: {e}"))
        digest = hashlib.blake2b(repr(s1).encode(), digest_size=16).digest()
        self.last_public = (s1[0], s1[1])  # model + league, WITHOUT the module-globals part (a legal memo cache lives there)
        return digest, obs, viol, s1[2] != g0


def diff_snap(a, b):
    if a == b:
        return "no difference"
    # both are "{k:v,...}" strings; show differing items
    sa, sb = set(a.strip("{}").split(",")), set(b.strip("{}").split(","))
    return f"before-only {sorted(sa - sb)[:4]} after-only {sorted(sb - sa)[:4]}"


def diff_state(a, b):
    out = []
    if a[0] != b[0]:
        out.append("model: " + diff_snap(a[0], b[0]))
    for i, (x, y) in enumerate(zip(a[1], b[1])):
        if x != y:
            out.append(f"player {i}: {x} -> {y}")
    if a[2] != b[2]:
        out.append("module globals: " + str([(x, y) for x, y in zip(a[2], b[2]) if x != y][:3]))
    return "; ".join(out)[:600]


def describe(op):
    if op[0] == "rate":
        _, mt, r, tau, ls, enc = op
        s = f"rate({'v'.join('+'.join('p%d' % i for i in t) for t in mt)}, {enc}={list(r) if enc == 'ranks' else [max(r) + 1 - x for x in r]}"
        if tau is not None:
            s += f", tau={tau!r}"
        if ls is not None:
            s += f", limit_sigma={ls}"
        return s + ")"
    if op[0] in ("predict_win", "predict_draw", "predict_rank"):
        return f"{op[0]}({'v'.join('+'.join('p%d' % i for i in t) for t in op[1])})"
    return ":".join(str(x) for x in op)


# --------------------------------------------------------------------------- malformed calls (C13 classes)
def _watch(holder, label, obj):
    holder.setdefault("watch", []).append((label, obj, snap_obj(obj)))
    return obj


def _foreign(search, mu=25.0, sigma=8.0):
    other = "BTF" if search.kind != "BTF" else "PL"
    return spaces.model_class(other)().rating(mu, sigma, name="foreign")


BAD = {
    "teams=None": lambda s, m, L, h: m.rate(None),
    "one-team": lambda s, m, L, h: m.rate([[L[0]]]),
    "empty-team": lambda s, m, L, h: m.rate([[L[0]], []], ranks=[0, 1]),
    "tuple-team": lambda s, m, L, h: m.rate([[L[0]], (L[1],)]),
    "foreign-rating": lambda s, m, L, h: m.rate([[L[0], L[1]], [L[2], _watch(h, "the foreign rating", _foreign(s))]]),
    "ranks-short": lambda s, m, L, h: m.rate([[L[0]], [L[1]]], ranks=[1]),
    "ranks-tuple": lambda s, m, L, h: m.rate([[L[0]], [L[1]]], ranks=(0, 1)),
    "ranks-str-elem": lambda s, m, L, h: m.rate([[L[0]], [L[1]], [L[2]]], ranks=[0, 1, "2"]),
    "scores-none-elem": lambda s, m, L, h: m.rate([[L[0]], [L[1]]], scores=[1, None], tau=0.5, limit_sigma=True),
    "both-selectors": lambda s, m, L, h: m.rate([[L[0]], [L[1]]], ranks=[0, 1], scores=[1, 0], limit_sigma=True),
    "predict_win-float-player": lambda s, m, L, h: m.predict_win([[L[0]], [1.0]]),
    "predict_rank-one-team": lambda s, m, L, h: m.predict_rank([[L[0]]]),
    "predict_draw-str": lambda s, m, L, h: m.predict_draw("ab"),
}


# --------------------------------------------------------------------------- operation alphabets
def _rate_ops(beta, matchups, options, enc_alternate=False):
    """Outcomes are given as ranks; the plain call (no per-call option) of every matchup x weak order is present a second time with
    the outcome given as positive scores.  enc_alternate: the option variants of tied outcomes use scores as well."""
    ops = []
    for mt in matchups:
        for r in spaces.weak_orders(len(mt)):
            for (tau, ls) in options:
                enc = "scores" if (enc_alternate and len(set(r)) < len(r)) else "ranks"
                ops.append(("rate", mt, tuple(r), tau, ls, enc))
                if (tau, ls) == (None, None):
                    ops.append(("rate", mt, tuple(r), tau, ls, "ranks" if enc == "scores" else "scores"))
    return ops


def ops_full(beta):
    options = [(t, l) for t in (None, 0, 0.5 * beta) for l in (None, True, False)]
    ops = _rate_ops(beta, MATCHUPS, options)
    ops += _rate_ops(beta, [TWINS], [(None, None), (None, True)])
    for mt in MATCHUPS:
        for p in ("predict_win", "predict_draw", "predict_rank"):
            ops.append((p, mt))
    for name in BAD:
        ops.append(("bad", name))
    ops += [("restore", "create_rating"), ("restore", "rating"), ("deepcopy",), ("mutate",), ("foreign",)]
    return ops


def ops_reduced(beta):
    options = [(None, None), (0, None), (0.5 * beta, None), (None, True), (None, False)]
    ops = _rate_ops(beta, [MATCHUPS[0], MATCHUPS[1], MATCHUPS[4]], options, enc_alternate=True)
    ops += _rate_ops(beta, [TWINS], [(None, None)])
    for mt in MATCHUPS:
        for p in ("predict_win", "predict_draw", "predict_rank"):
            ops.append((p, mt))
    for name in BAD:
        ops.append(("bad", name))
    ops += [("restore", "create_rating"), ("restore", "rating"), ("deepcopy",), ("mutate",), ("foreign",)]
    return ops


def ops_toggle(beta):
    """Option toggling on ONE pair of long-lived rating objects (p1's sigma is tiny, so tau and the clamp both bite): every combination of
    the per-call options, three outcomes, plus the operations that come between games in an application.  Small enough for depth 3 on
    every change (depth 4 in the thorough tier): state kept on a rating object or a model between games with different options needs
    three steps - set, disturb, read (e.g. a prior sigma remembered by a limit_sigma game, overtaken by an unclamped game, and used
    again by a tau = 0 game that skips the refresh)."""
    options = [(None, None), (0, None), (0.5 * beta, None), (None, True), (None, False), (0, True), (0.5 * beta, True), (0.0, False)]
    ops = []
    for r in ((0, 1), (1, 0), (0, 0)):
        for (tau, ls) in options:
            ops.append(("rate", MATCHUPS[0], r, tau, ls, "ranks"))
    ops.append(("rate", MATCHUPS[0], (1, 0), None, None, "scores"))
    ops.append(("rate", TWINS, (0, 0), None, None, "ranks"))
    ops += [("predict_draw", MATCHUPS[0]), ("predict_rank", MATCHUPS[4]), ("bad", "ranks-short"), ("restore", "rating"), ("deepcopy",), ("mutate",), ("foreign",)]
    return ops


def ops_small(beta):
    """Tiny alphabet for deep searches / smoke runs."""
    options = [(None, None), (0, None), (None, True)]
    ops = _rate_ops(beta, [MATCHUPS[0], MATCHUPS[1]], options)
    ops += [("predict_draw", MATCHUPS[3]), ("bad", "scores-none-elem"), ("restore", "create_rating"), ("deepcopy",)]
    return ops


def ops_seed(beta):
    """Alphabet of the hash-seed / id-salt re-runs: every matchup x every weak order, the option variants on one
    matchup, every predictor, restore and deepcopy."""
    ops = _rate_ops(beta, MATCHUPS, [(None, None)], enc_alternate=True)
    ops += _rate_ops(beta, [MATCHUPS[0]], [(0, None), (None, True)])
    for mt in MATCHUPS:
        for p in ("predict_win", "predict_draw", "predict_rank"):
            ops.append((p, mt))
    ops += [("restore", "create_rating"), ("deepcopy",), ("mutate",), ("foreign",)]
    return ops


OPS = {"full": ops_full, "reduced": ops_reduced, "small": ops_small, "seed": ops_seed, "toggle": ops_toggle}


# --------------------------------------------------------------------------- level-synchronous parallel BFS
_SEARCHES = {}


def _search(key):
    if key not in _SEARCHES:
        _SEARCHES[key] = Search(*key)
    return _SEARCHES[key]


def _expand(unit, ctx):
    """worker: expand a chunk of frontier histories of one search.  Returns an Acc whose .payload carries the
    successor digests."""
    key, hists, init_snap, invs = unit
    key = tuple(key)
    hists = [tuple(h) for h in hists]
    s = _search(key)
    acc = core.Acc()
    payload = []
    for hist in hists:
        for oi in range(len(s.ops)):
            digest, obs, viol, gchg = s.step(hist, oi, init_snap)
            acc.evals += 1
            if gchg:
                acc.add("transitions_changing_module_globals")
            for inv, msg in viol:
                if invs is not None and inv not in invs:
                    acc.add("other_invariant_violations:" + inv)
                    continue
                acc.violation("E2", f"{inv}:{s.kind}:{s.ops[oi][0]}", msg,
                              {"search": list(key), "hist": list(hist), "op": oi, "inv": inv})
            payload.append((hist, oi, digest))
    acc.payload = payload
    return acc


def explore(searches, depth, ctx, chunk=8, invs=None):
    """Run all searches to `depth` (transitions are evaluated from every state at depth < `depth`).
    Returns dict with states/transitions/merges per search, merged violations Acc, sample traces."""
    stats = {}
    frontier = {}
    seen = {}
    init = {}
    for key in searches:
        s = _search(key)
        m, L = s.build(())
        st = s.state(m, L)
        # I1 compares with a model that has never been called (not with the warm state: a model attribute created by the first
        # prediction or the first rate would otherwise be part of the reference and never be reported)
        init[key] = snap_model(s.fresh()[0])
        d0 = hashlib.blake2b(repr(st).encode(), digest_size=16).digest()
        seen[key] = {d0: ()}
        frontier[key] = [()]
        stats[key] = {"states": 1, "transitions": 0, "merges": 0, "max_depth": 0, "ops": len(s.ops),
                      "distinct_successors_per_level": []}
    total = core.Acc()
    for level in range(depth):
        units = []
        for key in searches:
            fr = frontier[key]
            for i in range(0, len(fr), chunk):
                units.append((key, fr[i:i + chunk], init[key], invs))
        if not units:
            break
        results = _run_collect(units, ctx)
        per = {key: [] for key in searches}
        for (unit, acc) in results:
            total.merge(acc)
            per[unit[0]].extend(acc.payload)
        for key in searches:
            new = []
            for (hist, oi, digest) in sorted(per[key], key=lambda t: (t[0], t[1])):
                stats[key]["transitions"] += 1
                if digest is None:
                    continue
                if digest in seen[key]:
                    stats[key]["merges"] += 1
                else:
                    seen[key][digest] = hist + (oi,)
                    new.append(hist + (oi,))
            stats[key]["states"] = len(seen[key])
            if new:
                stats[key]["max_depth"] = level + 1
            stats[key]["distinct_successors_per_level"].append(len(new))
            frontier[key] = new
    return stats, total


def _run_collect(units, ctx):
    """like core.run_units but keeps per-unit results (payloads are not mergeable)."""
    import multiprocessing
    import random

    order = list(range(len(units)))
    random.Random(ctx.seed).shuffle(order)
    core._WORKER["fn"] = _expand
    core._WORKER["ctx"] = ctx
    out = [None] * len(units)
    errors = []
    if ctx.jobs <= 1 or len(units) <= 1:
        core._worker_init()
        for i in order:
            idx, r, err = core._call((i, units[i]))
            out[idx] = r
            if err:
                errors.append(err)
    else:
        with multiprocessing.get_context("fork").Pool(min(ctx.jobs, len(units)), initializer=core._worker_init) as pool:
            for idx, r, err in pool.imap_unordered(core._call, [(i, units[i]) for i in order], chunksize=1):
                out[idx] = r
                if err:
                    errors.append(err)
    if errors:
        raise core.HarnessError("E2 worker failure(s):\n" + "\n".join(errors[:3]))
    return list(zip(units, out))


def replay(case):
    """Re-run one transition (history + op) with all invariants; returns messages of the violated ones
    (restricted to case['inv'] when given)."""
    key = tuple(case["search"])
    s = _search(key)
    init = snap_model(s.fresh()[0])
    _, obs, viol, _ = s.step(tuple(case["hist"]), case["op"], init)
    want = case.get("inv")
    return [f"{inv}: {msg}" for inv, msg in viol if want is None or inv == want]
