"""Independent reference model (DESIGN §5, Appendix A), written from Weng & Lin (JMLR 2011)
Algorithms 1-4 and the library documentation.  No library code is imported here.

Two arithmetic contexts: FLOAT (math, Phi by erfc) and MP (mpmath, 40 digits).  rate() returns
per player an *interval* (mu_lo, mu_hi, sg_lo, sg_hi) plus the scales R4 needs; the interval has
zero width except where the Thurstone-Mosteller models substitute a documented asymptotic form,
where it is widened by exactly the error C17 states for that form."""
import math
import sys

EPS = sys.float_info.epsilon
REL = 1e-9
SQ2 = math.sqrt(2.0)
S2PI = math.sqrt(2.0 * math.pi)


class FloatCtx:
    name = "float"

    @staticmethod
    def num(x):
        return float(x)

    exp = staticmethod(math.exp)
    sqrt = staticmethod(math.sqrt)
    fsum = staticmethod(math.fsum)
    sinh = staticmethod(math.sinh)
    cosh = staticmethod(math.cosh)

    @staticmethod
    def Phi(x):
        return 0.5 * math.erfc(-x / SQ2)

    @staticmethod
    def phi(x):
        return math.exp(-0.5 * x * x) / S2PI

    @staticmethod
    def V_tail(y):
        """phi(-y)/Phi(-y) for large y > 30 by the asymptotic Mills series (error < 1e3/y^10)."""
        y2 = y * y
        return y / (1 - 1 / y2 + 3 / y2 ** 2 - 15 / y2 ** 3 + 105 / y2 ** 4)

    tail_cut = -30.0


_MP = None


def mp_ctx():
    global _MP
    if _MP is None:
        import mpmath

        mpmath.mp.dps = 40

        class MpCtx:
            name = "mp"
            mp = mpmath
            num = staticmethod(mpmath.mpf)
            exp = staticmethod(mpmath.exp)
            sqrt = staticmethod(mpmath.sqrt)
            fsum = staticmethod(mpmath.fsum)
            sinh = staticmethod(mpmath.sinh)
            cosh = staticmethod(mpmath.cosh)
            _s2 = mpmath.sqrt(2)
            _s2pi = mpmath.sqrt(2 * mpmath.pi)

            @staticmethod
            def Phi(x):
                return mpmath.erfc(-x / MpCtx._s2) / 2

            @staticmethod
            def phi(x):
                return mpmath.exp(-x * x / 2) / MpCtx._s2pi

            tail_cut = None

        _MP = MpCtx
    return _MP


FLOAT = FloatCtx


# --------------------------------------------------------------------------- V, W, V~, W~
def V(A, x, t):
    z = x - t
    if A.tail_cut is not None and z < A.tail_cut:
        return A.V_tail(-z)
    return A.phi(z) / A.Phi(z)


def W(A, x, t):
    z = x - t
    vv = V(A, x, t)
    return vv * (vv + z)


def _gauss_legendre(n):
    """Nodes/weights on [-1, 1] by Newton iteration on P_n (pure Python, done once)."""
    xs, ws = [], []
    for i in range(1, n + 1):
        x = math.cos(math.pi * (i - 0.25) / (n + 0.5))
        for _ in range(100):
            p0, p1 = 1.0, x
            for k in range(2, n + 1):
                p0, p1 = p1, ((2 * k - 1) * x * p1 - (k - 1) * p0) / k
            dp = n * (x * p1 - p0) / (x * x - 1)
            dx = p1 / dp
            x -= dx
            if abs(dx) < 1e-17:
                break
        xs.append(x)
        ws.append(2 / ((1 - x * x) * dp * dp))
    return xs, ws


_GL = _gauss_legendre(24)


def _tie_parts(A, a, t):
    """With b = Phi(t-a) - Phi(-t-a) = phi(a) * I,  I = int_{-t}^{t} exp(u a - u^2/2) du  (all terms positive):
         V~ = -sgn(x) * 2 exp(-t^2/2) sinh(t a) / I
         W~ = exp(-t^2/2) (2 t cosh(t a) - 2 a sinh(t a)) / I + V~^2
    Returns (S, Cn, I) with S = 2 e^{-t^2/2} sinh(ta), Cn = e^{-t^2/2}(2t cosh(ta) - 2a sinh(ta)).
    The float context evaluates I by 24-point Gauss-Legendre when t*a <= 8 (no cancellation at all);
    otherwise, and always in the mp context, from Phi directly."""
    ta = t * a
    e = A.exp(-t * t / 2)
    sh, ch = A.sinh(ta), A.cosh(ta)
    S = 2 * e * sh
    Cn = 2 * e * (t * ch - a * sh)
    if A.name == "float" and ta <= 8.0:
        I = t * math.fsum(w * math.exp((t * u) * a - (t * u) ** 2 / 2) for u, w in zip(*_GL))
    else:
        pa = A.phi(a)
        b = A.Phi(t - a) - A.Phi(-t - a)
        if pa <= 0 or b <= 0:
            return S, Cn, None
        I = b / pa
    return S, Cn, I


def Vt(A, x, t):
    a = abs(x)
    S, Cn, I = _tie_parts(A, a, t)
    val = -(a - t) if I is None else -S / I  # far-out float underflow: the limit
    return -val if x < 0 else val


def Wt(A, x, t):
    a = abs(x)
    S, Cn, I = _tie_parts(A, a, t)
    if I is None:
        return A.num(1)
    vt = S / I
    return Cn / I + vt * vt


def tm_terms(A, x, t, rel):
    """Exact correction terms for 'i vs q' and the half-width the statement grants the library.
    rel: +1 i placed better than q, -1 worse, 0 tied.  Returns (v, tol_v, w, tol_w)."""
    if rel != 0:
        xx = x if rel > 0 else -x
        mass = A.Phi(xx - t)
        vv = V(A, xx, t)
        ww = W(A, xx, t)
        if mass >= EPS * (1 + 1e-9):
            tv = tw = 0
        else:  # asymptotic branch (or inside the guard band of its threshold): 2 %
            tv = abs(vv) * 0.02
            tw = abs(ww) * 0.02
        return (vv if rel > 0 else -vv), tv, ww, tw
    a = abs(x)
    b = A.Phi(t - a) - A.Phi(-t - a)
    vv = Vt(A, x, t)
    ww = Wt(A, x, t)
    tf = float(t)
    if b >= 1e-5 * (1 + 1e-6):
        tv, tw = 0, 1e-13 / tf
    else:
        tv, tw = 2 * tf, 20 * tf + 1e-13 / tf
    return vv, tv, ww, tw


# --------------------------------------------------------------------------- outcome helpers
def dense(ranks):
    """0-based competition rank: number of teams strictly better (lower value)."""
    return [sum(1 for y in ranks if y < x) for x in ranks]


def neighbours(ranks):
    """Adjacent teams in the stable sort of the teams by rank value (partial pairing)."""
    n = len(ranks)
    order = sorted(range(n), key=lambda i: (ranks[i], i))
    pos = {t: p for p, t in enumerate(order)}
    nb = []
    for i in range(n):
        p = pos[i]
        l = []
        if p > 0:
            l.append(order[p - 1])
        if p < n - 1:
            l.append(order[p + 1])
        nb.append(l)
    return nb


def default_gamma(c, k, mu, ss, team, rank):
    return math.sqrt(ss) / c


# --------------------------------------------------------------------------- rate
def rate(kind, teams, ranks, beta, kappa, tau, gamma=None, limit_sigma=False, A=FLOAT, detail=False):
    """teams: list of lists of (mu, sigma) floats; ranks: numbers, lower is better (None = listed order).
    Returns list of lists of (mu_lo, mu_hi, sg_lo, sg_hi, tol_mu, tol_sg) -- tolerances per R4
    already computed but NOT applied; use inside()."""
    n = len(teams)
    if ranks is None:
        ranks = list(range(n))
    N = A.num
    beta_ = N(beta)
    kap = N(kappa)
    tau_ = N(tau)
    infl = [[(N(m), A.sqrt(N(s) * N(s) + tau_ * tau_)) for (m, s) in T] for T in teams]
    tm = [A.fsum([m for m, _ in T]) for T in infl]
    ts = [A.fsum([s * s for _, s in T]) for T in infl]
    r = dense(ranks)
    custom = gamma is not None

    def G(c, i):
        if not custom:
            return A.sqrt(ts[i]) / c
        return N(gamma(float(c), n, float(tm[i]), float(ts[i]), teams[i], r[i]))

    O = [0] * n
    OT = [0] * n
    Dl = [0] * n
    DT = [0] * n
    if kind == "PL":
        c = A.sqrt(A.fsum([s + beta_ * beta_ for s in ts]))
        e = [A.exp(m / c) for m in tm]
        Acnt = [sum(1 for s in range(n) if r[s] == r[q]) for q in range(n)]
        S = [A.fsum([e[s] for s in range(n) if r[s] >= r[q]]) for q in range(n)]
        for i in range(n):
            o, d = [], []
            for q in range(n):
                if r[q] <= r[i]:
                    p = e[i] / S[q]
                    o.append(((1 - p) if q == i else -p) / Acnt[q])
                    d.append(p * (1 - p) / Acnt[q])
            O[i] = ts[i] / c * A.fsum(o)
            Dl[i] = G(c, i) * ts[i] / (c * c) * A.fsum(d)
    else:
        full = kind in ("BTF", "TMF")
        nb = None if full else neighbours(ranks)
        for i in range(n):
            qs = [q for q in range(n) if q != i] if full else nb[i]
            o, ot, d, dt = [], [], [], []
            for q in qs:
                c = A.sqrt(ts[i] + ts[q] + 2 * beta_ * beta_)
                if kind == "TMP":
                    c = 2 * c
                g = G(c, i)
                if kind in ("BTF", "BTP"):
                    z = (tm[i] - tm[q]) / c
                    p = 1 / (1 + A.exp(-z))
                    pc = 1 / (1 + A.exp(z))  # 1 - p without cancellation
                    if r[q] > r[i]:
                        smp = pc
                    elif r[q] < r[i]:
                        smp = -p
                    else:
                        smp = (pc - p) / 2
                    o.append(ts[i] / c * smp)
                    d.append(g * ts[i] / (c * c) * p * pc)
                else:
                    x = (tm[i] - tm[q]) / c
                    t = kap / c
                    rel = 1 if r[q] > r[i] else (-1 if r[q] < r[i] else 0)
                    vv, tv, ww, tw = tm_terms(A, x, t, rel)
                    k1 = ts[i] / c
                    o.append(k1 * vv)
                    ot.append(k1 * tv)
                    k2 = g * ts[i] / (c * c)
                    d.append(k2 * ww)
                    dt.append(abs(k2) * tw)
            O[i] = A.fsum(o)
            Dl[i] = A.fsum(d)
            OT[i] = A.fsum(ot) if ot else 0
            DT[i] = A.fsum(dt) if dt else 0
    out = []
    for i, T in enumerate(infl):
        row = []
        for j, (m, s) in enumerate(T):
            sh = s * s / ts[i]
            mu_lo = m + sh * (O[i] - OT[i])
            mu_hi = m + sh * (O[i] + OT[i])
            tolm = REL * (abs(m) + abs(sh * O[i]) + s)
            s_lo = s * A.sqrt(max(1 - sh * (Dl[i] + DT[i]), kap))
            s_hi = s * A.sqrt(max(1 - sh * (Dl[i] - DT[i]), kap))
            if limit_sigma:
                prior = N(teams[i][j][1])
                s_lo = min(s_lo, prior)
                s_hi = min(s_hi, prior)
            tols = REL * s_hi
            row.append((float(mu_lo), float(mu_hi), float(s_lo), float(s_hi), float(tolm), float(tols)))
        out.append(row)
    if detail:
        return out, dict(O=[float(v) for v in O], D=[float(v) for v in Dl], ts=[float(v) for v in ts],
                         tm=[float(v) for v in tm], r=r)
    return out


def inside(mu, sigma, iv):
    lo, hi, slo, shi, tm_, ts_ = iv
    return (lo - tm_ <= mu <= hi + tm_) and (slo - ts_ <= sigma <= shi + ts_)


def width(iv):
    """(mu width incl. tolerance, sigma width incl. tolerance) of a reference interval."""
    lo, hi, slo, shi, tm_, ts_ = iv
    return (hi - lo) + 2 * tm_, (shi - slo) + 2 * ts_


# --------------------------------------------------------------------------- predictions
_MARGIN_Z = {}


def margin_z(N_players, A=FLOAT):
    """Phi^-1((1 + 1/N)/2), from mpmath.erfinv (tabulated)."""
    key = N_players
    if key not in _MARGIN_Z:
        M = mp_ctx()
        _MARGIN_Z[key] = M.mp.sqrt(2) * M.mp.erfinv(M.mp.mpf(1) / N_players)
    z = _MARGIN_Z[key]
    return z if A.name == "mp" else float(z)


def team_stats(A, T):
    return A.fsum([A.num(m) for m, _ in T]), A.fsum([A.num(s) * A.num(s) for _, s in T])


def predict_win(teams, beta, A=FLOAT):
    n = len(teams)
    b = A.num(beta)
    st = [team_stats(A, T) for T in teams]
    if n == 2:
        N = len(teams[0]) + len(teams[1])
        p = A.Phi((st[0][0] - st[1][0]) / A.sqrt(N * b * b + st[0][1] + st[1][1]))
        return [p, 1 - p]
    den = A.num(n * (n - 1)) / 2
    return [A.fsum([A.Phi((st[a][0] - st[c][0]) / A.sqrt(n * b * b + st[a][1] + st[c][1]))
                    for c in range(n) if c != a]) / den for a in range(n)]


def margin(teams, beta, A=FLOAT):
    N = sum(len(T) for T in teams)
    return A.sqrt(A.num(N)) * A.num(beta) * margin_z(N, A)


def predict_rank_probs(teams, beta, A=FLOAT):
    n = len(teams)
    b = A.num(beta)
    st = [team_stats(A, T) for T in teams]
    m = margin(teams, beta, A)
    den = A.num(n * (n - 1)) / 2
    return [A.fsum([A.Phi((st[a][0] - st[c][0] - m) / A.sqrt(n * b * b + st[a][1] + st[c][1]))
                    for c in range(n) if c != a]) / den for a in range(n)]


def predict_draw(teams, beta, A=FLOAT):
    n = len(teams)
    b = A.num(beta)
    st = [team_stats(A, T) for T in teams]
    m = margin(teams, beta, A)
    tot = []
    for a in range(n):
        for c in range(a + 1, n):
            s = A.sqrt(n * b * b + st[a][1] + st[c][1])
            d = st[a][0] - st[c][0]
            tot.append(A.Phi((m - d) / s) - A.Phi((-m - d) / s))
    return 2 * A.fsum(tot) / (1 if n == 2 else n * (n - 1))
