"""bin/check entry point:  check <ID> [--tier quick|thorough] [--replay path]"""
import argparse
import importlib
import os
import json
import sys
import time
import traceback

from vf import core


def main(argv=None):
    ap = argparse.ArgumentParser()
    ap.add_argument("pid")
    ap.add_argument("--tier", default=None)
    ap.add_argument("--seed", default=None)
    ap.add_argument("--jobs", default=None)
    ap.add_argument("--replay", default=None)
    a = ap.parse_args(argv)
    pid = a.pid.upper()
    try:
        core.load_repo()
        mod = importlib.import_module(f"vf.checks.{pid.lower()}")
        if a.replay:
            blob = json.load(open(a.replay))
            from vf import lib

            core._worker_init()  # every exploring process starts with the decoy prelude; so does the replay
            try:
                msgs = mod.replay(blob["case"])
            except core.HarnessError:
                raise
            except Exception as e:
                # R7: an exception that comes out of the library on the (valid) calls of the replayed case reproduces the violation
                tb = e.__traceback__
                inside = False
                while tb is not None:
                    if os.path.abspath(tb.tb_frame.f_code.co_filename).startswith(os.path.join(core.REPO, "openskill")):
                        inside = True
                    tb = tb.tb_next
                if not inside:
                    raise
                msgs = [f"the replayed case raises {type(e).__name__}: {e} inside the library"]
            if msgs:
                print(f"VIOLATION property={pid} replay={a.replay}")
                for m in msgs:
                    print("  " + m)
                return core.EXIT_VIOLATION
            # The case alone satisfies the property in a fresh process.  If it was found inside a unit of exploration,
            # re-run that whole unit (deterministic: prelude + unit): a violation that only shows up after the unit's
            # earlier calls means the library's answer depends on the calls made before in the same process.
            unit = blob.get("unit")
            if unit is not None and hasattr(mod, "replay_unit"):
                ctx = core.Ctx(blob.get("tier"), blob.get("seed"), 1)
                acc = mod.replay_unit(unit, ctx)
                hits = [v for v in acc.violations if v["key"].split(":")[-3:] == blob["key"].split(":")[-3:] or v["key"] == blob["key"]]
                if hits:
                    print(f"VIOLATION property={pid} replay={a.replay}")
                    print("  reproduces only as part of its exploration unit (the same case alone in a fresh process satisfies the property): "
                          "the result depends on calls made earlier in the same process")
                    print("  " + hits[0]["msg"][:600])
                    return core.EXIT_VIOLATION
                hist = blob.get("unit_history") or []
                if hist:
                    for u in hist:
                        try:
                            mod.replay_unit(u, ctx)
                        except core.HarnessError:
                            raise
                    acc = mod.replay_unit(unit, ctx)
                    hits = [v for v in acc.violations if v["key"].split(":")[-3:] == blob["key"].split(":")[-3:] or v["key"] == blob["key"]]
                    if hits:
                        print(f"VIOLATION property={pid} replay={a.replay}")
                        print(f"  reproduces only after the {len(hist)} exploration units its worker process had run before (neither the case alone nor its "
                              "unit alone violates the property in a fresh process): the result depends on the history of the process")
                        print("  " + hits[0]["msg"][:600])
                        return core.EXIT_VIOLATION
            print(f"{pid}: case in {a.replay} satisfies the property on {core.REPO}")
            return core.EXIT_OK
        ctx = core.Ctx(a.tier, a.seed, a.jobs)
        t0 = time.time()
        return mod.main(ctx, t0)
    except core.HarnessError as e:
        print(f"HARNESS-ERROR: {e}")
        return core.EXIT_HARNESS
    except Exception:
        print("HARNESS-ERROR: unexpected exception in the checking machinery")
        traceback.print_exc()
        return core.EXIT_HARNESS


if __name__ == "__main__":
    sys.exit(main())
