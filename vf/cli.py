"""bin/check entry point:  check <ID> [--tier quick|thorough] [--replay path]"""
import argparse
import importlib
import json
import sys
import time
import traceback

from vf import core


def main(argv=None):
    ap = argparse.ArgumentParser()
    ap.add_argument("pid")
    ap.add_argument("--tier", default=None)
    ap.add_argument("--seed", default=None)
    ap.add_argument("--jobs", default=None)
    ap.add_argument("--replay", default=None)
    a = ap.parse_args(argv)
    pid = a.pid.upper()
    try:
        core.load_repo()
        mod = importlib.import_module(f"vf.checks.{pid.lower()}")
        if a.replay:
            blob = json.load(open(a.replay))
            msgs = mod.replay(blob["case"])
            if msgs:
                print(f"VIOLATION property={pid} replay={a.replay}")
                for m in msgs:
                    print("  " + m)
                return core.EXIT_VIOLATION
            print(f"{pid}: case in {a.replay} satisfies the property on {core.REPO}")
            return core.EXIT_OK
        ctx = core.Ctx(a.tier, a.seed, a.jobs)
        t0 = time.time()
        return mod.main(ctx, t0)
    except core.HarnessError as e:
        print(f"HARNESS-ERROR: {e}")
        return core.EXIT_HARNESS
    except Exception:
        print("HARNESS-ERROR: unexpected exception in the checking machinery")
        traceback.print_exc()
        return core.EXIT_HARNESS


if __name__ == "__main__":
    sys.exit(main())
