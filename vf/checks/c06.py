"""C06 - sigma stays positive, grows by at most tau per game, and limit_sigma caps it.
E1 one-step invariant from every alphabet state + E2/I3 on histories + a narrow-deep history pass."""
import math

from vf import core, e2, lib, spaces

PID = "C06"
LEVEL = "model_checking"
RULE = ("one-step invariant I3 (posterior sigma finite, >0, <= sqrt(prior^2+tau_eff^2), <= prior when limit_sigma is in force) from "
        "EVERY alphabet state: spaces S2,P2,P3,T3,T4 under K0 and S2,T3 under K1-K8 + gamma=0, all weak orders; sigma=0 members "
        "wherever tau>0; the per-call option matrix tau in {omitted,0,tau0,2beta} x limit_sigma in {omitted,True,False} x 4 "
        "model-level settings on S2 and T3|V6; histories: E2 BFS (reduced alphabet, depth 2; thorough adds depth 4 over the small alphabet) with I3 on every "
        "transition, and a narrow-deep search of all 3^d histories (d=8 quick, 12 thorough) over {1v1 with limit_sigma, 1v1 with "
        "tau=0, 3-way tie} with the running bound sigma_k^2 <= sigma_0^2 + sum tau_eff^2; non-trivial = case where the bound is "
        "binding or nearly so (posterior sigma > prior sigma, or the clamp changed the value)")
ASSUMPTIONS = ["4-ulp slack on the sqrt(prior^2+tau^2) bound (the harness and the library may round the inflation differently); none on the limit_sigma clause",
               "histories longer than the depth bound are covered through the inductive one-step argument over alphabet states"]


def sigma_ok(prior, post, tau_eff, limit):
    if limit and prior == 0:
        # "strictly positive" and "no larger than the prior" contradict each other for a prior of exactly 0 under
        # limit_sigma; the only satisfiable reading is post == prior == 0 (recorded in DESIGN.md as a corrected false alarm)
        return isinstance(post, float) and post == 0.0
    if not (isinstance(post, float) and math.isfinite(post) and post > 0):
        return False
    cap = math.sqrt(prior * prior + tau_eff * tau_eff)
    if post > cap * (1 + 1e-15):
        return False
    if limit and post > prior:
        return False
    return True


def eval_one(kind, cfg, game, ranks, tau=None, ls=None, mtau=None, mls=None):
    kw = cfg.kwargs()
    if mtau is not None:
        kw["tau"] = mtau
    if mls is not None:
        kw["limit_sigma"] = mls
    model = spaces.model_class(kind)(**kw)
    call = {}
    if tau is not None:
        call["tau"] = tau
    if ls is not None:
        call["limit_sigma"] = ls
    try:
        with core.watchdog():
            out = lib.rate(model, game, ranks=list(ranks), **call)
    except Exception as e:
        return [f"rate raised {type(e).__name__}: {e}"], 0
    tau_eff = kw["tau"] if tau is None else float(tau)
    limit = kw["limit_sigma"] if ls is None else ls
    msgs = []
    nt = 0
    for i, T in enumerate(out):
        for j, (mu, sg) in enumerate(T):
            prior = game[i][j][1]
            if sg > prior or (limit and sg == prior):
                nt = 1
            if not sigma_ok(prior, sg, tau_eff, limit):
                msgs.append(f"{kind} {cfg.name} player[{i}][{j}] sigma {prior!r} -> {sg!r}; tau_eff={tau_eff!r} cap={math.sqrt(prior*prior+tau_eff*tau_eff)!r} "
                            f"limit_sigma={limit} (call tau={tau!r} limit_sigma={ls!r}; model tau={kw['tau']!r} limit_sigma={kw['limit_sigma']}) game={game} ranks={list(ranks)}")
    return msgs, nt


V6Z = spaces.V6 + [(6, 0.0)]


def space_games(sp, kind, cfg):
    if sp == "T3z":
        return spaces.games_T(3, V6Z, cfg)
    if sp == "S2z":
        return spaces.games_S2(kind, cfg, sig=[0.0, 1e-4, 2])
    return spaces.value_games(sp, kind, cfg)


def plan(ctx):
    out = []
    sp0 = ["S2", "P2", "P3", "T3", "T4"] + (["T5", "D7", "D8", "D8x8"] if ctx.thorough else ["T5|V2", "D7b1", "D8b1"]) + ["PK"]
    for sp in sp0:
        out.append((sp, "K0", "plain"))
    for K in ["K1", "K2", "K3", "K4", "K5", "K6", "K7", "K8", "KG0", "K9", "K10"]:
        out.append(("S2", K, "plain"))
        out.append(("T3", K, "plain"))
    out += [("P2z", "K0", "plain"), ("P2z", "K4", "plain"), ("P2z", "K5", "plain")]
    out += [("P2", "K5", "plain"), ("P3", "K5", "plain"), ("PK", "K5", "plain")]  # limit_sigma with mixed-sigma multi-player teams
    for K in ("K0", "K4", "K5", "K7"):
        out.append(("T3z", K, "plain"))
        out.append(("S2z", K, "plain"))
    out.append(("S2", "K0", "matrix"))
    out.append(("T3|V6", "K0", "matrix"))
    if ctx.thorough:
        out.append(("T3z", "K0", "matrix"))
        out.append(("P2", "K0", "matrix"))
    return out


PARTS = {"P2z": 2, "PK": 2, "T5|V2": 4, "D7b1": 4, "D8b1": 8, "S2": 4, "P2": 6, "P3": 8, "T3": 8, "T4": 24, "T5": 64, "D7": 24, "D8": 64, "D8x8": 64, "T3z": 2, "S2z": 2, "T3|V6": 2}


def matrix(cfg):
    b = cfg.beta
    for mtau, mls in ((None, None), (None, True), (0.0, None), (2 * b, None)):
        for tau in (None, 0, cfg.tau, 2 * b):
            for ls in (None, True, False):
                yield dict(tau=tau, ls=ls, mtau=mtau, mls=mls)


def units(ctx):
    us = []
    for kind in spaces.KINDS:
        for (sp, K, mode) in plan(ctx):
            parts = PARTS[sp] * (8 if mode == "matrix" else 1)
            for k in range(parts):
                us.append(("one", kind, sp, K, mode, k, parts))
        depth = 12 if ctx.thorough else 8
        for mcfg in ("default", "limit"):
            for pre in range(27 if ctx.thorough else 9):
                us.append(("deep", kind, mcfg, depth, pre, 27 if ctx.thorough else 9))
    return us


# ---------------------------------------------------------------- narrow-deep pass
def deep_ops(b):
    return [("A", ((0,), (1,)), [0, 1], {"limit_sigma": True}),
            ("B", ((1,), (2,)), [1, 0], {"tau": 0}),
            ("C", ((0,), (1,), (2,)), [0, 0, 0], {})]


def deep_step(model, vals, bounds2, op, cfg_tau, cfg_limit):
    name, mt, ranks, kw = op
    teams = [[model.rating(*vals[i]) for i in t] for t in mt]
    out = model.rate(teams, ranks=list(ranks), **kw)
    tau_eff = float(kw.get("tau", cfg_tau))
    limit = kw.get("limit_sigma", cfg_limit)
    nv = list(vals)
    nb = list(bounds2)
    msgs = []
    for t, to in zip(mt, out):
        for i, p in zip(t, to):
            prior = vals[i][1]
            if not sigma_ok(prior, p.sigma, tau_eff, limit):
                msgs.append(f"step {name}: player {i} sigma {prior!r} -> {p.sigma!r} (tau_eff={tau_eff!r}, limit_sigma={limit})")
            if not limit:
                nb[i] = bounds2[i] + tau_eff * tau_eff
            if p.sigma * p.sigma > nb[i] * (1 + 1e-12):
                msgs.append(f"step {name}: player {i} sigma^2 {p.sigma*p.sigma!r} exceeds the running bound sigma_0^2 + sum tau^2 = {nb[i]!r}")
            nv[i] = (p.mu, p.sigma)
    return nv, nb, msgs


def deep_run(kind, mcfg, hist):
    """replay one history by values; returns messages"""
    cfg = spaces.Cfg(mcfg, **e2.MODEL_CFGS[mcfg])
    b = cfg.beta
    ops = deep_ops(b)
    vals = [(6 * b, 2 * b), (7 * b, 0.01 * b), (5 * b, 0.5 * b)]
    bounds2 = [s * s for _, s in vals]
    model = cfg.make(kind)
    for h in hist:
        vals, bounds2, msgs = deep_step(model, vals, bounds2, ops[h], cfg.tau, cfg.limit_sigma)
        if msgs:
            return msgs
    return []


def deep_search(kind, mcfg, depth, pre, nparts, acc):
    cfg = spaces.Cfg(mcfg, **e2.MODEL_CFGS[mcfg])
    b = cfg.beta
    ops = deep_ops(b)
    model = cfg.make(kind)
    v0 = [(6 * b, 2 * b), (7 * b, 0.01 * b), (5 * b, 0.5 * b)]
    b0 = [s * s for _, s in v0]
    plen = 3 if nparts == 27 else 2
    prefix = [(pre // (3 ** i)) % 3 for i in range(plen)]
    seen = set()

    def rec(vals, bounds2, hist):
        if len(hist) >= depth:
            return
        for oi in range(3):
            if len(hist) < plen and oi != prefix[len(hist)]:
                continue
            try:
                nv, nb, msgs = deep_step(model, vals, bounds2, ops[oi], cfg.tau, cfg.limit_sigma)
            except Exception as e:
                acc.violation(PID, f"{kind}:deep:exc", f"{type(e).__name__}: {e} after history {hist + [oi]}", {"what": "deep", "kind": kind, "mcfg": mcfg, "hist": hist + [oi]})
                continue
            acc.evals += 1
            acc.add("deep_transitions")
            if any(nv[i][1] > vals[i][1] for i in range(3)) or cfg.limit_sigma or oi == 0:
                acc.nontrivial += 1
            if msgs:
                acc.violation(PID, f"{kind}:deep:{mcfg}", f"history {''.join('ABC'[h] for h in hist + [oi])}: " + msgs[0],
                              {"what": "deep", "kind": kind, "mcfg": mcfg, "hist": hist + [oi]})
                continue
            key = tuple(x.hex() for v in nv for x in v)
            seen.add(key)
            acc.mx("deep_max_depth", len(hist) + 1)
            rec(nv, nb, hist + [oi])

    rec(v0, b0, [])
    acc.add("deep_value_states", len(seen))


def run_unit(unit, ctx):
    acc = core.Acc()
    if unit[0] == "deep":
        _, kind, mcfg, depth, pre, nparts = unit
        deep_search(kind, mcfg, depth, pre, nparts, acc)
        if pre == 0:
            acc.sample({"what": "deep history", "kind": kind, "model": mcfg, "ops": "A=rate(p0 v p1, limit_sigma=True) B=rate(p1 v p2, tau=0, ranks=[1,0]) C=rate(p0 v p1 v p2, ranks=[0,0,0])", "depth": depth})
        return acc
    _, kind, sp, K, mode, k, parts = unit
    cfg = spaces.config(K)
    for game in spaces.sharded(space_games(sp, kind, cfg), k, parts):
        if cfg.tau == 0 and any(s == 0 for T in game for _, s in T):
            continue
        for ranks in spaces.outcomes_for(len(game)):
            if mode == "plain":
                acc.evals += 1
                msgs, nt = eval_one(kind, cfg, game, ranks)
                acc.nontrivial += nt
                if msgs:
                    acc.violation(PID, f"{kind}:one:{K}", msgs[0], lib.case_game(kind, cfg, game, what="one", ranks=list(ranks), opts={}))
            else:
                for o in matrix(cfg):
                    if (o["tau"] == 0 or (o["tau"] is None and o["mtau"] == 0.0)) and any(s == 0 for T in game for _, s in T):
                        continue
                    acc.evals += 1
                    msgs, nt = eval_one(kind, cfg, game, ranks, **o)
                    acc.nontrivial += nt
                    if msgs:
                        acc.violation(PID, f"{kind}:matrix:tau={'given' if o['tau'] is not None else 'omitted'}:ls={o['ls']}", msgs[0],
                                      lib.case_game(kind, cfg, game, what="one", ranks=list(ranks), opts=o))
    acc.sample(lib.case_game(kind, cfg, game, ranks=list(ranks), mode=mode))
    return acc


def replay(case):
    if case.get("engine") == "E2":
        core.deterministic_ids(0)
        return e2.replay(case)
    if case.get("what") == "deep":
        return deep_run(case["kind"], case["mcfg"], case["hist"])
    kind, cfg, game = lib.uncase_game(case)
    msgs, _ = eval_one(kind, cfg, game, tuple(case["ranks"]), **case["opts"])
    return msgs


def main(ctx, t0):
    acc = core.run_units(units(ctx), run_unit, ctx)
    core.deterministic_ids(0)
    searches = [(k, c, "reduced") for k in spaces.KINDS for c in ("default", "limit", "tau2b")]
    stats, a2 = e2.explore(searches, 2, ctx, chunk=16, invs=("I3", "R7"))
    # option toggling on one pair of long-lived rating objects, depth 3 (thorough: 4): see e2.ops_toggle
    tog = [(k, c, "toggle") for k in spaces.KINDS for c in ("default", "limit")]
    stats_t, a2t = e2.explore(tog, 4 if ctx.thorough else 3, ctx, chunk=32, invs=("I3", "R7"))
    stats.update(stats_t)
    a2.merge(a2t)
    if ctx.thorough:  # deeper histories over the small alphabet (depth 4: every state reachable by three calls is expanded)
        deep = [(k, c, "small") for (k, c, _) in searches]
        stats_d, a2d = e2.explore(deep, 4, ctx, chunk=64, invs=("I3", "R7"))
        stats.update(stats_d)
        a2.merge(a2d)
    for v in a2.violations:
        if v["case"]["inv"] in ("I3", "R7"):
            v["property"] = PID
            v["key"] = "E2:" + v["key"]
            v["case"]["engine"] = "E2"
            acc.violations.append(v)
    for k, c in a2.count.items():
        if k.startswith("viol:I3") or k.startswith("viol:R7"):
            acc.count[k] = c
            acc.viol_count += c
    states = sum(s["states"] for s in stats.values()) + acc.count.get("deep_value_states", 0)
    transitions = sum(s["transitions"] for s in stats.values()) + acc.count.get("deep_transitions", 0)
    acc.evals += sum(s["transitions"] for s in stats.values())
    extra = {"exhaustive": True, "states": states, "transitions": transitions, "traces_validated_against_impl": transitions,
             "e2": {"/".join(k): v for k, v in stats.items()}, "one_step_plan": [f"{a}/{b}/{c}" for a, b, c in plan(ctx)]}
    return core.finish(PID, ctx, LEVEL, acc, RULE, extra, ASSUMPTIONS, t0)


def replay_unit(unit, ctx):
    if unit and isinstance(unit[0], (list, tuple)):  # an E2 expansion unit
        core.deterministic_ids(0)
        acc = e2._expand(unit, ctx)
        for v in acc.violations:
            v["key"] = "E2:" + v["key"]
        return acc
    return run_unit(unit, ctx)
