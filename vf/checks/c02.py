"""C02 - rate() result corresponds to its input position by position and player by player.
E1 with identity + reference oracle (DESIGN §6 C02)."""
import itertools

from vf import core, lib, ref, spaces

PID = "C02"
LEVEL = "exploration"
RULE = ("all team shapes with n<=4 (quick) / n<=5 (thorough) teams of 1..3 players plus three 8-team shapes with up to 8 players; "
        "every slot gets a distinct (mu, sigma), name and id (and again with all players equal-valued, with equal-valued twin teams in "
        "non-adjacent slots, where only ids/names tell slots apart, and with converged players (sigma 1e-4 beta) under tau = 0); every weak order (n<=5) / every tie pattern x generator "
        "permutation (n=8) x encodings {int ranks, float ranks, negative ranks, scores, omitted} x limit_sigma {off, "
        "model-level, per-call} (n = 5: int ranks and scores x {off, per-call}); oracle: nesting, id and name per slot, each posterior inside the reference interval of "
        "THAT player, passed objects all untouched or all equal to the returned rating of the same slot; non-trivial = "
        "outcome order differs from listing order or has ties (the library permutes internally) or a team has >1 player")
ASSUMPTIONS = ["one rating object placed in two slots is not a valid game", "reference model as in C01"]


def slot_value(k, b):
    mu = b * (-10 + ((k * 7) % 61) * 0.5 + (0.25 if k >= 61 else 0.0))
    sg = b * (0.3 + ((k * 5) % 13) * 0.35)
    return (mu, sg)


def game_for(shape, b, assign="distinct"):
    g, k = [], 0
    for sz in shape:
        if assign == "distinct":
            g.append([slot_value(k + j, b) for j in range(sz)])
        elif assign == "same":  # fresh default players everywhere: only ids and names tell the slots apart
            g.append([(6 * b, 2 * b)] * sz)
        elif assign == "tiny":  # converged players rated without tau: team variances far below kappa (no team may be dropped)
            g.append([(slot_value(k + j, b)[0], 1e-4 * b * (1 + (k + j) % 3)) for j in range(sz)])
        else:  # "twins": every team is a copy of one of two value patterns, so equal-valued teams sit in non-adjacent slots
            g.append([slot_value(j + (0 if len(g) % 2 == 0 else 3), b) for j in range(sz)])
        k += sz
    return g


ASSIGN = ("distinct", "same", "twins", "tiny")


def enc_args(enc, r):
    if enc == "int":
        return {"ranks": list(r)}
    if enc == "float":
        return {"ranks": [float(x) for x in r]}
    if enc == "neg":
        return {"ranks": [x * 2 - 9 for x in r]}
    if enc == "scores":
        return {"scores": [7.5 - x for x in r]}
    return {}


LS_MODES = ("off", "model", "call")


def eval_case(kind, shape, r, enc, ls, assign="distinct"):
    cfg = spaces.config("K3" if assign == "tiny" else ("K5" if ls == "model" else "K0"))
    game = game_for(shape, cfg.beta, assign)
    model = cfg.make(kind)
    names = [[f"t{i}p{j}" for j in range(len(T))] for i, T in enumerate(game)]
    teams = lib.ratings(model, game, names)
    ids = [[p.id for p in T] for T in teams]
    objs = [[p for p in T] for T in teams]
    kw = enc_args(enc, r)
    if ls == "call":
        kw["limit_sigma"] = True
    msgs = []
    try:
        with core.watchdog():
            out = model.rate(teams, **kw)
    except Exception as e:
        return [f"rate raised {type(e).__name__}: {e}"]
    if not isinstance(out, list) or len(out) != len(game):
        return [f"result has {len(out) if hasattr(out, '__len__') else '?'} teams, input has {len(game)}"]
    for i, (To, Tg) in enumerate(zip(out, game)):
        if not isinstance(To, list) or len(To) != len(Tg):
            return [f"result team {i} has {len(To) if hasattr(To, '__len__') else '?'} players, input team has {len(Tg)}"]
    rcls = type(objs[0][0])
    eff_r = list(r) if enc != "omitted" else list(range(len(game)))
    iv = ref.rate(kind, game, eff_r, cfg.beta, cfg.kappa, cfg.tau, None, ls != "off")
    if assign == "tiny" and kind in spaces.TM:
        iv = None  # tau = 0 with sigma 1e-4 beta: standardised gaps of ~1e4, far outside every envelope; identity clauses only
    seen_ids = []
    for i, To in enumerate(out):
        for j, p in enumerate(To):
            if type(p) is not rcls:
                msgs.append(f"result[{i}][{j}] is a {type(p).__name__}")
                continue
            seen_ids.append(p.id)
            if p.id != ids[i][j] or p.name != names[i][j]:
                msgs.append(f"result[{i}][{j}] carries id/name of {p.name!r} (id {p.id[:8]}), the player passed there is {names[i][j]!r} (id {ids[i][j][:8]})")
            if iv is not None and not ref.inside(p.mu, p.sigma, iv[i][j]):
                msgs.append(f"result[{i}][{j}] = ({p.mu!r}, {p.sigma!r}) is not the posterior of the player passed at [{i}][{j}] "
                            f"(prior {game[i][j]}, reference mu [{iv[i][j][0]!r},{iv[i][j][1]!r}] sigma [{iv[i][j][2]!r},{iv[i][j][3]!r}])")
    if sorted(seen_ids) != sorted(x for T in ids for x in T):
        msgs.append("the multiset of ids in the result differs from the input's (a player was dropped or duplicated)")
    # passed objects: all untouched or all equal to the returned rating of the same slot
    untouched = all(o.mu == game[i][j][0] and o.sigma == game[i][j][1] for i, T in enumerate(objs) for j, o in enumerate(T))
    updated = all(core.bits(o.mu) == core.bits(out[i][j].mu) and core.bits(o.sigma) == core.bits(out[i][j].sigma)
                  for i, T in enumerate(objs) for j, o in enumerate(T))
    if not (untouched or updated):
        bad = [(i, j) for i, T in enumerate(objs) for j, o in enumerate(T)
               if not ((o.mu == game[i][j][0] and o.sigma == game[i][j][1]) or (o.mu == out[i][j].mu and o.sigma == out[i][j].sigma))]
        msgs.append(f"passed rating objects are a mixture after the call: neither all untouched nor all equal to the returned rating "
                    f"(slots in neither state: {bad[:4]}; e.g. passed[0][0]=({objs[0][0].mu!r},{objs[0][0].sigma!r}) result[0][0]=({out[0][0].mu!r},{out[0][0].sigma!r}))")
    for i, T in enumerate(objs):
        for j, o in enumerate(T):
            if o.id != ids[i][j] or o.name != names[i][j]:
                msgs.append(f"the passed object at [{i}][{j}] had its id/name changed")
    return msgs


BIG = [(1, 2, 3, 4, 5, 6, 7, 8), (8, 1, 8, 1, 8, 1, 8, 1), (8, 8, 8, 8, 8, 8, 8, 8)]


def units(ctx):
    nmax = 5 if ctx.thorough else 4
    us = []
    for kind in spaces.KINDS:
        for n in range(2, nmax + 1):
            shs = spaces.shapes(n, 3)
            parts = {2: 1, 3: 2, 4: 12, 5: 96}[n]
            for k in range(parts):
                us.append((kind, n, k, parts))
        for bi, sh in enumerate(BIG if ctx.thorough else BIG[:1]):
            for k in range(4):
                us.append((kind, "big", bi, k, 4))
    return us


def run_unit(unit, ctx):
    kind = unit[0]
    acc = core.Acc()
    if unit[1] == "big":
        _, _, bi, k, parts = unit
        shape = BIG[bi]
        for r in spaces.sharded(spaces.outcomes_big(8), k, parts):
            for enc, ls, assign in (("int", "off", "distinct"), ("scores", "call", "distinct"), ("int", "off", "twins")):
                acc.evals += 1
                acc.nontrivial += 1
                msgs = eval_case(kind, shape, r, enc, ls, assign)
                if msgs:
                    acc.violation(PID, f"{kind}:big:{enc}:{ls}:{assign}", msgs[0], {"kind": kind, "shape": list(shape), "r": list(r), "enc": enc, "ls": ls, "assign": assign})
        acc.sample({"kind": kind, "shape": list(shape), "ranks": list(r), "enc": enc, "limit_sigma": ls})
        return acc
    _, n, k, parts = unit
    combos = [(sh, r) for sh in spaces.shapes(n, 3) for r in spaces.weak_orders(n)]
    for (shape, r) in spaces.sharded(combos, k, parts):
        ident = list(r) == list(range(n))
        encs = ("int", "float", "neg", "scores") if n <= 4 else ("int", "scores")
        for enc in encs + (("omitted",) if ident else ()):
            for ls in (LS_MODES if n <= 4 else ("off", "call")):
                for assign in (ASSIGN if enc in ("int", "scores") and ls != "model" and (n <= 4 or enc == "int") else ASSIGN[:1]):
                    acc.evals += 1
                    if (not ident) or max(shape) > 1:
                        acc.nontrivial += 1
                    msgs = eval_case(kind, shape, r, enc, ls, assign)
                    if msgs:
                        acc.violation(PID, f"{kind}:{enc}:{ls}:{assign}:{'tie' if len(set(r)) < n else 'strict'}", msgs[0],
                                      {"kind": kind, "shape": list(shape), "r": list(r), "enc": enc, "ls": ls, "assign": assign})
    acc.sample({"kind": kind, "shape": list(shape), "ranks": list(r), "enc": "scores", "limit_sigma": "call"})
    return acc


def replay(case):
    return eval_case(case["kind"], tuple(case["shape"]), tuple(case["r"]), case["enc"], case["ls"], case.get("assign", "distinct"))


def main(ctx, t0):
    acc = core.run_units(units(ctx), run_unit, ctx)
    return core.finish(PID, ctx, LEVEL, acc, RULE, {"exhaustive": True, "max_teams_full_product": 5 if ctx.thorough else 4}, ASSUMPTIONS, t0)


def replay_unit(unit, ctx):
    return run_unit(unit, ctx)
