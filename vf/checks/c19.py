"""C19 - the five models differ only in their update rule.  E1, differential across the five copies of the
shared code (programs), plus BT-part == BT-full on two-team games."""
import copy
import inspect
import itertools

from vf import core, lib, pred, spaces
from vf.checks import c13, c18

PID = "C19"
LEVEL = "exploration"
RULE = ("differential over the five model classes as five programs: (a) predict_win / predict_draw / predict_rank on every game of the "
        "prediction space G under K0 and G2+G3 under K1,K9,K10 must agree (1e-12; ranks exactly), both on fresh objects and on one model + one set of rating objects per class that is "
        "re-used for the whole shard with values assigned in place; (b) the whole C13 fault grammar "
        "(every op x shape x position x fault, accept side included): same accept/reject decision and same exception class, and again for every pair (player fault in team i, "
        "team fault in team j != i) - two defects at once, where only the ORDER of validation decides the class; (c) "
        "the C18 alphabet: all pairs x 6 operators, hash / copy / deepcopy behaviour vectors, foreign operands; (d) "
        "inspect.signature of every public callable of model and rating classes; (e) BT-part vs BT-full on every 2-team game of "
        "S2 and P2 x 3 outcomes x 5 per-call option sets (1e-12); non-trivial = every compared item (each is a distinct input on which five programs "
        "are compared)")
ASSUMPTIONS = ["'identical' = 1e-12 on numbers, exact on classes / booleans / signatures", "repr/str texts (which name the class) are not compared"]


def eval_pred(cfg, g, persist=None):
    """persist: {kind: {shape: (model, rating objects)}} - when given, each class keeps ONE model and ONE set of rating objects
    per team shape for the whole unit and the game's values are assigned to them in place (what rate() does), so the five
    programs are also compared on a common history of earlier predictions with the same objects."""
    res = {}
    shape = tuple(len(T) for T in g)
    for kind in spaces.KINDS:
        try:
            with core.watchdog():
                if persist is None:
                    w, d, r = pred.predict_all(cfg.make(kind), g)
                else:
                    slot = persist.setdefault(kind, {})
                    if shape not in slot:
                        mdl = cfg.make(kind)
                        slot[shape] = (mdl, lib.ratings(mdl, g))
                    mdl, objs = slot[shape]
                    for T, vals in zip(objs, g):
                        for p, (mu, sg) in zip(T, vals):
                            p.mu, p.sigma = mu, sg
                    w, d, r = mdl.predict_win(objs), mdl.predict_draw(objs), mdl.predict_rank(objs)
            res[kind] = (list(w) + [d] + [p for _, p in r], [k for k, _ in r])
        except Exception as e:
            res[kind] = ("exc", type(e).__name__)
    ref_kind = spaces.KINDS[0]
    msgs = []
    for kind in spaces.KINDS[1:]:
        a, b_ = res[ref_kind], res[kind]
        if a[0] == "exc" or b_[0] == "exc":
            if a != b_:
                msgs.append((kind, f"{kind} vs {ref_kind}: {b_} vs {a} on {g}"))
            continue
        if len(a[0]) != len(b_[0]) or any(abs(x - y) > 1e-12 for x, y in zip(a[0], b_[0])) or a[1] != b_[1]:
            msgs.append((kind, f"{kind} and {ref_kind} predict differently on the same teams: {b_} vs {a}; game {g} [{cfg.name}]"))
    return msgs


def eval_grammar(op, shape_name, opt, fid):
    outs = {}
    for kind in spaces.KINDS:
        x = c13.execute(kind, op, shape_name, opt, fid)
        outs[kind] = (x["outcome"], x["exc"], bool(x["side"]))
    if len(set(outs.values())) != 1:
        return [f"{op} {shape_name} {fid} ({opt}): the five models do not treat this call alike: {outs}"]
    return []


def double_faults(shape):
    """Two defects in two different teams (the five copies validate in nested loops; the ORDER in which they look must be the
    same): player-level fault in team i x team-level fault in team j != i.  -> (label, builder(model, kind) -> teams arg)"""
    n = len(shape)
    pf = {"None": lambda m, k: None, "int": lambda m, k: 0, "float": lambda m, k: 21.5, "foreign": lambda m, k: c13.foreign_rating(k, 0),
          "str": lambda m, k: "p"}
    tf = {"empty": lambda T: [], "None": lambda T: None, "tuple": lambda T: tuple(T), "str": lambda T: "ab", "int": lambda T: 3}
    for i in range(n):
        for j in range(n):
            if i == j:
                continue
            for pn, pfn in pf.items():
                for tn, tfn in tf.items():
                    def build(m, kind, i=i, j=j, pfn=pfn, tfn=tfn):
                        t = c13.mk_teams(m, shape)
                        t[i] = list(t[i])
                        t[i][0] = pfn(m, kind)
                        t[j] = tfn(t[j])
                        return t
                    yield f"player[{i}][0]<-{pn} & team[{j}]<-{tn}", build
    # too few teams combined with a bad member
    yield "one team with a bad player", lambda m, kind: [[None]]
    yield "teams tuple with a bad team", lambda m, kind: ([m.rating()], None)


def eval_double(op, shape_name, label):
    shape = c13.SHAPES[shape_name]
    for lab, build in double_faults(shape):
        if lab == label:
            break
    else:
        raise core.HarnessError(f"unknown double fault {label}")
    outs = {}
    for kind in spaces.KINDS:
        m = spaces.model_class(kind)()
        arg = build(m, kind)
        try:
            getattr(m, "rate" if op.startswith("rate") else op)(arg)
            outs[kind] = "returned"
        except Exception as e:
            outs[kind] = type(e).__name__
    if len(set(outs.values())) != 1:
        return [f"{op.split('+')[0]}({shape_name}; {label}): the five models do not treat this call alike: {outs}"]
    return []


def fault_ids(op, shape):
    # fault ids are the same for every class except the foreign-rating names, which are indexed
    return [(fid, expect) for (fid, expect, _) in c13.faults("PL", op, shape)]


def rating_vector(kind):
    """behaviour of one rating class on the C18 alphabet, as a JSON-able vector"""
    m = spaces.model_class(kind)()
    vec = []
    rs = [m.rating(*v) for v in c18.ALPHA]
    for a in rs:
        for b_ in rs:
            vec.append([a < b_, a <= b_, a > b_, a >= b_, a == b_, a != b_])
    beh = []
    for a, v in zip(rs, c18.ALPHA):
        dc = copy.deepcopy(a)
        sc = copy.copy(a)
        twin = m.rating(*v)
        beh.append({
            "hash==hash(deepcopy)": hash(a) == hash(dc), "hash==hash((id,mu,sigma))": hash(a) == hash((a.id, a.mu, a.sigma)),
            "hash==hash(twin)": hash(a) == hash(twin), "deepcopy.id": dc.id == a.id, "deepcopy is": dc is a, "deepcopy==": dc == a,
            "copy.id": sc.id == a.id, "copy is": sc is a, "copy.__dict__": sc.__dict__ == a.__dict__, "twin==": twin == a,
            "attrs": sorted(a.__dict__), "ordinal": a.ordinal().hex() if isinstance(a.ordinal(), float) else repr(a.ordinal()),
            "ordinal(1)": repr(a.ordinal(1)), "in-set": len({a, dc}) , "name": a.name,
        })
    foreign = []
    for fname, f in c18.foreign_operands(kind, m):
        fname = fname.split(":")[0]
        row = [fname]
        for sym, op in c18.OPS.items():
            for l, r in ((rs[0], f), (f, rs[0])):
                try:
                    row.append(repr(op(l, r)))
                except Exception as e:
                    row.append(type(e).__name__)
        row += [repr(rs[0] == f), repr(rs[0] != f)]
        foreign.append(row)
    return {"cmp": vec, "beh": beh, "foreign": sorted(foreign)}


def sig_vector(kind):
    import importlib

    cls = spaces.model_class(kind)
    rcls = type(cls().rating())
    mod = importlib.import_module(cls.__module__)
    out = {}
    cname = spaces.CLASSNAME[kind]

    def norm(x):
        return repr(x).replace(cname, "<Model>") if not callable(x) else getattr(x, "__name__", "callable")

    for owner, label in ((cls, "model"), (rcls, "rating")):
        names = sorted(n for n in dir(owner) if not n.startswith("_")) + ["__init__"]
        out[label + ".public"] = names
        for n in names:
            attr = inspect.getattr_static(owner, n)
            kindof = type(attr).__name__
            fn = getattr(owner, n)
            if callable(fn):
                try:
                    sig = inspect.signature(fn)
                    out[f"{label}.{n}"] = [kindof] + [(p.name, str(p.kind), "<empty>" if p.default is inspect._empty else norm(p.default)) for p in sig.parameters.values()]
                except (TypeError, ValueError):
                    out[f"{label}.{n}"] = [kindof, "no-signature"]
            else:
                out[f"{label}.{n}"] = [kindof]
    out["module.__all__"] = [n.replace(cname, "<Model>") for n in getattr(mod, "__all__", [])]
    # public instance attributes only: a private helper attribute in one class is not an operation
    out["instance attrs"] = [a.replace(cname, "<Model>") for a in sorted(vars(cls())) if not a.startswith("_")]
    return out


def eval_static():
    msgs = []
    rv = {k: rating_vector(k) for k in spaces.KINDS}
    sv = {k: sig_vector(k) for k in spaces.KINDS}
    k0 = spaces.KINDS[0]
    n = 0
    for k in spaces.KINDS[1:]:
        for part in ("cmp", "beh", "foreign"):
            n += len(rv[k0][part])
            if rv[k][part] != rv[k0][part]:
                idx = next(i for i, (a, b_) in enumerate(zip(rv[k][part], rv[k0][part])) if a != b_) if len(rv[k][part]) == len(rv[k0][part]) else -1
                msgs.append((k, f"rating classes of {k} and {k0} behave differently ({part}, item {idx}): {rv[k][part][idx] if idx >= 0 else 'length'} vs {rv[k0][part][idx] if idx >= 0 else 'length'}"))
        for key in sorted(set(sv[k]) | set(sv[k0])):
            n += 1
            if sv[k].get(key) != sv[k0].get(key):
                msgs.append((k, f"{k} and {k0} expose different operations/signatures at {key}: {sv[k].get(key)} vs {sv[k0].get(key)}"))
    return msgs, n


def bt_options(cfg):
    return [{}, {"tau": 0}, {"tau": 0.5 * cfg.beta, "limit_sigma": True}, {"limit_sigma": True}, {"tau": 2 * cfg.beta}]


def eval_bt(cfg, g):
    msgs = []
    for r in spaces.weak_orders(2):
        for opts in bt_options(cfg):
            a = lib.rate(cfg.make("BTF"), g, ranks=list(r), **opts)
            b_ = lib.rate(cfg.make("BTP"), g, ranks=list(r), **opts)
            for (x, y) in zip(lib.flat(a), lib.flat(b_)):
                if abs(x - y) > 1e-12 * max(abs(x), abs(y), cfg.beta):
                    msgs.append(f"BT-part and BT-full differ on a two-team game: {b_} vs {a}; game {g} ranks {list(r)} options {opts} [{cfg.name}]")
                    break
    return msgs


def units(ctx):
    us = [("pred",) + u for u in pred.units(ctx)]
    for op in c13.OPS:
        us.append(("grammar", op))
    us.append(("static",))
    for K in (("K0", "K2", "K4", "K5", "K8") if ctx.thorough else ("K0", "K4", "K5")):
        for sp, parts in (("S2", 4), ("P2", 12)):
            for k in range(parts):
                us.append(("bt", K, sp, k, parts))
    return us


def run_unit(unit, ctx):
    acc = core.Acc()
    what = unit[0]
    if what == "pred":
        _, sp, K, k, parts = unit
        cfg = spaces.config(K)
        persist = {}
        for g in spaces.sharded(spaces.pred_games(sp, cfg), k, parts):
            acc.evals += 10
            acc.nontrivial += 2
            for kind, m in eval_pred(cfg, g):
                acc.violation(PID, f"pred:{kind}:n{min(len(g), 3)}", m, {"what": "pred", "cfg": K, "game": core.game_hex(g)})
            for kind, m in eval_pred(cfg, g, persist):
                acc.violation(PID, f"pred-history:{kind}:n{min(len(g), 3)}", m + " [one model and one set of rating objects per class, values assigned in place after earlier predictions]",
                              {"what": "pred", "cfg": K, "game": core.game_hex(g)})
        acc.sample({"what": "pred", "cfg": K, "game": g})
    elif what == "grammar":
        op = unit[1]
        for sn, sh in c13.SHAPES.items():
            for opt in (c13.OPTS if op.startswith("rate") else c13.OPTS[:1]):
                for fid, expect in fault_ids(op, sh):
                    acc.evals += 5
                    acc.nontrivial += 1
                    for m in eval_grammar(op, sn, opt, fid):
                        acc.violation(PID, f"grammar:{op.split('+')[0]}:{c13.fault_class(fid)}", m, {"what": "grammar", "op": op, "shape": sn, "opt": opt, "fid": fid})
        acc.sample({"what": "grammar", "op": op, "shape": sn, "fault": fid})
        if "+" not in op:  # double faults: once per entry point
            for sn, sh in c13.SHAPES.items():
                for label, _ in double_faults(sh):
                    acc.evals += 5
                    acc.nontrivial += 1
                    for m in eval_double(op, sn, label):
                        acc.violation(PID, f"grammar2:{op}", m, {"what": "grammar2", "op": op, "shape": sn, "label": label})
    elif what == "static":
        msgs, n = eval_static()
        acc.evals += n
        acc.nontrivial += n
        for kind, m in msgs[:6]:
            acc.violation(PID, f"static:{kind}", m, {"what": "static"})
    else:
        _, K, sp, k, parts = unit
        cfg = spaces.config(K)
        for g in spaces.sharded(spaces.value_games(sp, "BTF", cfg), k, parts):
            acc.evals += 30
            acc.nontrivial += 15
            for m in eval_bt(cfg, g)[:1]:
                acc.violation(PID, "bt-part-vs-full", m, {"what": "bt", "cfg": K, "game": core.game_hex(g)})
    return acc


def replay(case):
    w = case["what"]
    if w == "pred":
        return [m for _, m in eval_pred(spaces.config(case["cfg"]), core.game_unhex(case["game"]))]
    if w == "grammar":
        return eval_grammar(case["op"], case["shape"], case["opt"], case["fid"])
    if w == "grammar2":
        return eval_double(case["op"], case["shape"], case["label"])
    if w == "static":
        return [m for _, m in eval_static()[0]]
    return eval_bt(spaces.config(case["cfg"]), core.game_unhex(case["game"]))


def main(ctx, t0):
    acc = core.run_units(units(ctx), run_unit, ctx)
    return core.finish(PID, ctx, LEVEL, acc, RULE, {"exhaustive": True, "programs": 5}, ASSUMPTIONS, t0)


def replay_unit(unit, ctx):
    return run_unit(unit, ctx)
