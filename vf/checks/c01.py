"""C01 - rate() equals the published Weng-Lin posterior.  E1 + reference oracle (DESIGN §6 C01)."""
import time

from vf import core, lib, ref, spaces

PID = "C01"
LEVEL = "exploration"
RULE = ("every game of the named spaces (value product x every weak order, ranks and scores encodings; quick adds thin slices of "
        "5-8 teams: T5|V2 with all 541 weak orders, T6|V2 / D7 / D8 (deviation bound 1) with every tie pattern x generator permutation) x 5 model "
        "classes x configs K0-K10, each run through the real rate() on fresh objects and compared player by "
        "player with the interval reference model; non-trivial = some player's posterior differs bitwise from "
        "the prior AND was compared against the reference")
ASSUMPTIONS = [
    "reference model vf/ref.py (Weng-Lin Alg. 1-4 + documented extensions) is the specification; float context "
    "self-validated against the 40-digit mpmath context on every mp-checked game",
    "values between alphabet points and shapes above the bounds are not covered (DESIGN §9)",
    "tolerance R4: REL=1e-9 of scale; Thurstone-Mosteller asymptotic branches widened by C17's stated envelope",
]


def plan(ctx):
    """(kind, cfg, space, encodings, arithmetic)"""
    out = []
    for kind in spaces.KINDS:
        if ctx.thorough:
            for sp in ("S2", "S2F", "P2", "P3", "T3", "T4", "T5", "T6", "D7", "D8", "D8x8", "D2x16", "PK"):
                out.append((kind, "K0", sp, "float"))
            for K in ("K1", "K3", "K9"):
                out.append((kind, K, "S2F", "float"))
            out.append((kind, "K0", "S2F", "mp"))
            for K in spaces.ALLK[1:] + ["KG0"]:
                for sp in ("S2", "P2", "P3", "T3", "T4"):
                    out.append((kind, K, sp, "float"))
            for K in spaces.ALLK:
                for sp in ("S2", "P2", "T3"):
                    out.append((kind, K, sp, "mp"))
        else:
            for sp in ("S2", "S2F", "P2", "P3", "T3", "T4", "T5|V2", "T6|V2", "D7b1", "D8b1", "PK"):
                out.append((kind, "K0", sp, "float"))
            out.append((kind, "K1", "S2F", "float"))
            for K in spaces.ALLK[1:]:
                for sp in ("S2", "T3"):
                    out.append((kind, K, sp, "float"))
            for K in ("K0", "K4"):  # exactly-zero-sigma members next to ordinary team-mates (tau > 0)
                out.append((kind, K, "P2z", "float"))
            for K in ("K6", "K7", "K8"):  # custom gamma callbacks with >= 4 teams
                out.append((kind, K, "T4|V3", "float"))
            for sp in ("S2", "T3|V6", "P3"):  # gamma = 0 (for all / for the best-placed teams only): the variance step vanishes, the mean step must not
                out.append((kind, "KG0", sp, "float"))
                out.append((kind, "KG1", sp, "float"))
            for sp in ("S2", "T3|V6"):
                out.append((kind, "K0", sp, "mp"))
    return out


PARTS = {"S2F": 2, "P2z": 2, "PK": 2, "T5|V2": 4, "T6|V2": 8, "D7b1": 4, "D8b1": 8, "T4|V3": 2, "S2": 4, "P2": 6, "P3": 8, "T3": 8, "T4": 24, "T5": 64, "T6": 256, "D7": 24, "D8": 64, "D8x8": 64,
         "D2x16": 1, "T3|V6": 2}


THIN = ("T6|V2",)  # every tie pattern x generator permutation instead of all 4683 weak orders


def units(ctx):
    us = []
    for (kind, K, sp, ar) in plan(ctx):
        parts = PARTS.get(sp, 4) * (6 if ar == "mp" else 1)
        for k in range(parts):
            us.append((kind, K, sp, ar, k, parts))
    return us


def encodings(space):
    return ("ranks", "scores") if space in ("S2", "T3", "P3", "T3|V6") else ("ranks",)


def call(model, game, ranks, enc):
    if enc == "ranks":
        return lib.rate(model, game, ranks=list(ranks))
    if enc == "scores":
        return lib.rate(model, game, scores=[-r for r in ranks])
    return lib.rate(model, game)


def eval_case(kind, cfg, game, ranks, enc, arith):
    """-> (msgs, nontrivial)"""
    model = cfg.make(kind)
    try:
        with core.watchdog():
            got = call(model, game, ranks, enc)
    except Exception as e:  # R7
        return [f"rate raised {type(e).__name__}: {e}"], False
    A = ref.mp_ctx() if arith == "mp" else ref.FLOAT
    iv = ref.rate(kind, game, list(ranks), cfg.beta, cfg.kappa, cfg.tau, cfg.gamma_fn(), cfg.limit_sigma, A=A)
    msgs = []
    nontrivial = False
    for i, T in enumerate(got):
        for j, (mu, sg) in enumerate(T):
            if mu != game[i][j][0] or sg != game[i][j][1]:
                nontrivial = True
            if not ref.inside(mu, sg, iv[i][j]):
                lo, hi, slo, shi, tm_, ts_ = iv[i][j]
                msgs.append(f"player[{i}][{j}] prior={game[i][j]} got mu={mu!r} sigma={sg!r}; reference({arith}) "
                            f"mu in [{lo!r},{hi!r}]±{tm_:.3g} sigma in [{slo!r},{shi!r}]±{ts_:.3g}")
    if arith == "mp" and not msgs:
        # self-check: the float-context interval must contain the mp-context one (a reference bug -> exit 2)
        fv = ref.rate(kind, game, list(ranks), cfg.beta, cfg.kappa, cfg.tau, cfg.gamma_fn(), cfg.limit_sigma)
        for i, T in enumerate(iv):
            for j, m in enumerate(T):
                f = fv[i][j]
                mid_mu = 0.5 * (m[0] + m[1])
                mid_sg = 0.5 * (m[2] + m[3])
                if not ref.inside(mid_mu, mid_sg, f):
                    raise core.HarnessError(f"reference self-check: float interval {f} misses mp {m} for "
                                            f"{kind} {cfg.name} {game} {ranks}")
    return msgs, nontrivial


def run_unit(unit, ctx):
    kind, K, sp, arith, k, parts = unit
    cfg = spaces.config(K)
    acc = core.Acc()
    for game in spaces.sharded(spaces.value_games(sp, kind, cfg), k, parts):
        n = len(game)
        for ranks in spaces.outcomes_for(n, thin=sp in THIN):
            for enc in encodings(sp):
                acc.evals += 1
                msgs, nt = eval_case(kind, cfg, game, ranks, enc, arith)
                acc.nontrivial += 1 if nt else 0
                acc.add(f"games:{arith}")
                if msgs:
                    acc.violation(PID, f"{kind}:{enc}:{'tie' if len(set(ranks)) < n else 'strict'}", msgs[0],
                                  lib.case_game(kind, cfg, game, ranks=list(ranks), enc=enc, arith=arith))
        if acc.evals and not acc.samples:
            acc.sample(lib.case_game(kind, cfg, game, ranks=list(spaces.outcomes_for(n)[-1]), enc="ranks", arith=arith))
    return acc


def replay(case):
    kind, cfg, game = lib.uncase_game(case)
    msgs, _ = eval_case(kind, cfg, game, tuple(case["ranks"]), case["enc"], case["arith"])
    return msgs


def main(ctx, t0):
    acc = core.run_units(units(ctx), run_unit, ctx)
    extra = {"exhaustive": True, "plan": sorted({f"{sp}/{K}/{ar}" for (_, K, sp, ar) in plan(ctx)}),
             "models": spaces.KINDS}
    return core.finish(PID, ctx, LEVEL, acc, RULE, extra, ASSUMPTIONS, t0)


def replay_unit(unit, ctx):
    return run_unit(unit, ctx)
