"""C03 - outcomes are ordinal.  E1, metamorphic, bit-exact across every encoding of one weak order
(DESIGN §6 C03)."""
import itertools
import math

from vf import core, lib, ref, spaces

PID = "C03"
LEVEL = "exploration"
RULE = ("for n<=4 (quick) / n<=5 (thorough) teams: every weak order x every encoding of it (dense ints, floats, affine "
        "float map, negatives, ints beyond 2^53, 2^70+r, wide dynamic range (1e17 next to unit gaps), all 2^n int/float typing patterns, bools, signed zeros, "
        "+-inf ends, non-dense gaps, each also as negated scores; ranks omitted for the identity order) x 5 classes x 2 "
        "value assignments x {K0, K5, K8 (custom gamma sensitive to the rank argument)}; all encodings must give bit-identical posteriors and the canonical one must lie "
        "in the reference interval; non-trivial = encoding differs from the canonical list as a Python object "
        "(type or value) and the posterior differs from the prior")
ASSUMPTIONS = ["NaN rank values (no order) are outside the property", "n > 5 teams not enumerated here (C01/C04 cover larger n with int ranks)"]

INF = math.inf


def encodings(r):
    """name -> ('ranks'|'scores', list) for the dense rank vector r."""
    n = len(r)
    levels = max(r) + 1
    enc = {}
    enc["int"] = list(r)
    enc["float"] = [float(x) for x in r]
    enc["affine"] = [x * 2.5 - 7 for x in r]
    enc["neg"] = [x - 3 for x in r]
    enc["e18"] = [x * 10 ** 18 for x in r]
    enc["2p70"] = [2 ** 70 + x for x in r]
    enc["e400"] = [x * 10 ** 400 for x in r]  # ints beyond the float range: any float() coercion of rank/score values overflows
    enc["p400"] = [10 ** 400 + x for x in r]
    enc["2p70f"] = [float(2 ** 70) * (x + 1) for x in r]
    enc["gaps"] = [x * x * 3 + x for x in r]
    enc["tiny"] = [x * 5e-324 for x in r]
    # wide dynamic range: one value ~2^56 times larger than the gaps between the others (float absorption in any
    # arithmetic normalisation of the values shows up as false ties)
    enc["wide-lo"] = [(-1e17 if x == 0 else float(x)) for x in r]
    enc["wide-hi"] = [(1e17 if x == levels - 1 else float(x)) for x in r]
    enc["wide-small"] = [(1000.0 if x == levels - 1 else x * 1e-14) for x in r]
    enc["wide-int"] = [(-10 ** 17 if x == 0 else x) for x in r]
    for pat in itertools.product((0, 1), repeat=n):
        if any(pat):
            enc["typ" + "".join(map(str, pat))] = [float(x) if p else x for x, p in zip(r, pat)]
    if levels <= 2:
        enc["bool"] = [bool(x) for x in r]
        enc["boolmix"] = [bool(x) if i % 2 else x for i, x in enumerate(r)]
    z = [0, -0.0, 0.0]
    enc["zeros"] = [(z[i % 3] if x == 0 else x) for i, x in enumerate(r)]
    enc["zeros_f"] = [(z[(i + 1) % 3] if x == 0 else float(x)) for i, x in enumerate(r)]
    if levels >= 2:
        enc["inf"] = [(-INF if x == 0 else (INF if x == levels - 1 else float(x))) for x in r]
        enc["infmix"] = [(-INF if x == 0 else (INF if x == levels - 1 else x)) for x in r]
    out = {}
    for k, v in enc.items():
        out["r:" + k] = ("ranks", v)
        out["s:" + k] = ("scores", [-x for x in v])
    if list(r) == list(range(n)):
        out["omitted"] = ("none", None)
    return out


def assignments(n, cfg):
    b = cfg.beta
    A = [[(6 * b, 2 * b)], [(8 * b, 1 * b), (5 * b, 3 * b)], [(0.0, 10 * b)], [(7 * b, 1e-4 * b)], [(-3 * b, 2 * b), (9 * b, 0.5 * b)]]
    B = [[(6 * b, 2 * b)], [(6 * b, 2 * b)], [(8 * b, 1 * b), (5 * b, 3 * b)], [(6 * b, 2 * b)], [(8 * b, 1 * b), (5 * b, 3 * b)]]
    return [A[:n], B[:n]]


def run_enc(model, game, how, vals):
    if how == "ranks":
        return lib.rate(model, game, ranks=list(vals))
    if how == "scores":
        return lib.rate(model, game, scores=list(vals))
    return lib.rate(model, game)


def bitsof(vals):
    return [core.bits(x) for x in lib.flat(vals)]


def eval_case(kind, cfg, game, r, name=None):
    """All encodings of weak order r (or just `name`).  -> list of (enc_name, msg), nontrivial count, evals"""
    out = []
    encs = encodings(r)
    try:
        with core.watchdog():
            canon = run_enc(cfg.make(kind), game, "ranks", list(r))
    except Exception as e:
        return [("r:int", f"rate(ranks={list(r)}) raised {type(e).__name__}: {e}")], 0, 1
    cb = bitsof(canon)
    iv = ref.rate(kind, game, list(r), cfg.beta, cfg.kappa, cfg.tau, cfg.gamma_fn(), cfg.limit_sigma)
    for i, T in enumerate(canon):
        for j, (mu, sg) in enumerate(T):
            if not ref.inside(mu, sg, iv[i][j]):
                out.append(("r:int", f"canonical ranks={list(r)}: player[{i}][{j}] = ({mu!r},{sg!r}) outside reference {iv[i][j][:4]}"))
    moved = canon != game
    nt = ev = 0
    for en, (how, vals) in encs.items():
        if name is not None and en != name:
            continue
        if en == "r:int":
            continue
        ev += 1
        try:
            with core.watchdog():
                got = run_enc(cfg.make(kind), game, how, vals)
        except Exception as e:
            out.append((en, f"{how}={vals!r} raised {type(e).__name__}: {e}"))
            continue
        if moved:
            nt += 1
        if bitsof(got) != cb:
            out.append((en, f"{how}={vals!r} gives {got} but ranks={list(r)} gives {canon} (same weak order)"))
    return out, nt, ev


def units(ctx):
    nmax = 5 if ctx.thorough else 4
    us = []
    for kind in spaces.KINDS:
        for K in ("K0", "K5", "K8"):  # K8: gamma callback that depends on every argument, incl. the rank it is handed
            for n in range(2, nmax + 1):
                parts = {2: 1, 3: 1, 4: 4, 5: 24}[n]
                for k in range(parts):
                    us.append((kind, K, n, k, parts))
    return us


def enc_class(en):
    how, _, nm = en.partition(":")
    if nm.startswith("typ"):
        nm = "typing"
    return f"{how}:{nm}"


def run_unit(unit, ctx):
    kind, K, n, k, parts = unit
    cfg = spaces.config(K)
    acc = core.Acc()
    for ai, game in enumerate(assignments(n, cfg)):
        for r in spaces.sharded(spaces.weak_orders(n), k, parts):
            bad, nt, ev = eval_case(kind, cfg, game, r)
            acc.evals += ev
            acc.nontrivial += nt
            for en, msg in bad:
                acc.violation(PID, f"{kind}:{enc_class(en)}", msg,
                              lib.case_game(kind, cfg, game, r=list(r), enc=en))
            if not acc.samples:
                encs = encodings(r)
                en = sorted(encs)[len(encs) // 2]
                acc.sample({"kind": kind, "cfg": K, "weak_order": list(r), "encoding": en, "as": encs[en][0], "values": repr(encs[en][1])})
    return acc


def replay(case):
    kind, cfg, game = lib.uncase_game(case)
    bad, _, _ = eval_case(kind, cfg, game, tuple(case["r"]), None if case["enc"] == "r:int" else case["enc"])
    return [m for _, m in bad]


def main(ctx, t0):
    acc = core.run_units(units(ctx), run_unit, ctx)
    extra = {"exhaustive": True, "max_teams": 5 if ctx.thorough else 4,
             "encodings_per_order_n4": len(encodings((0, 1, 2, 3)))}
    return core.finish(PID, ctx, LEVEL, acc, RULE, extra, ASSUMPTIONS, t0)


def replay_unit(unit, ctx):
    return run_unit(unit, ctx)
