"""C16 - results do not depend on the unit or origin of the skill scale.  E1, metamorphic."""
import math

from vf import core, lib, pred, ref, spaces

PID = "C16"
LEVEL = "exploration"
REL = 1e-9
RULE = ("rate: every game x weak order of S2, P2, P3, T3, T4|V4 under K0, rescaled by k in {1e-3, 0.5, 3, 1e3, 2^-30, 2^30} (mu, sigma and the "
        "model's mu, sigma, beta, tau; kappa not) for PL / BT-full / BT-part, and shifted by {-5b, 0.1b, 7b} on the sub-space of "
        "equal team sizes for all five classes; predictions: G2, G3|V12, G4|V6 under the same scalings and shifts, all five "
        "classes, 1e-12; non-trivial = transformed game differs from the original and the posterior differs from the prior")
ASSUMPTIONS = ["R4 tolerance; Thurstone-Mosteller shift comparison additionally allows the reference-interval width (DESIGN §8 I2)",
               "shifted games leaving the 20*beta domain are dropped (counted)"]
SCALES = [1e-3, 0.5, 3.0, 1e3, 2.0 ** -30, 2.0 ** 30]  # the last two: far outside the decades the quantifier names, exact in binary (any absolute threshold on a squared skill quantity shows)
SHIFTS = [-5.0, 0.1, 7.0]


class Scaled:
    def __init__(self, cfg, k):
        self.cfg, self.k = cfg, k
        self.name = f"{cfg.name}*{k}"

    def make(self, kind):
        kw = self.cfg.kwargs()
        for a in ("mu", "sigma", "beta", "tau"):
            kw[a] = kw[a] * self.k
        m = spaces.model_class(kind)(**kw)
        spaces.decoy_model(kind)
        return m


def scale_game(g, k):
    return [[(m * k, s * k) for (m, s) in T] for T in g]


def shift_game(g, d):
    return [[(m + d, s) for (m, s) in T] for T in g]


def eval_rate(kind, cfg, g, ranks):
    msgs = []
    rel = 0
    try:
        with core.watchdog():
            base = lib.rate(cfg.make(kind), g, ranks=list(ranks))
            if kind not in spaces.TM:
                for k in SCALES:
                    got = lib.rate(Scaled(cfg, k).make(kind), scale_game(g, k), ranks=list(ranks))
                    rel += 1
                    for i, T in enumerate(g):
                        for j, (m, s) in enumerate(T):
                            bm, bs = base[i][j]
                            tolm = REL * (abs(m) + abs(bm - m) + s + cfg.tau)
                            if abs(got[i][j][0] / k - bm) > tolm or abs(got[i][j][1] / k - bs) > REL * bs:
                                msgs.append(("scale", f"{kind}: scaling everything by {k} gives player[{i}][{j}] ({got[i][j][0] / k!r}, {got[i][j][1] / k!r}) after rescaling, "
                                                      f"the unscaled game gives ({bm!r}, {bs!r}); game {g} ranks {list(ranks)}"))
                                break
                        else:
                            continue
                        break
            if len({len(T) for T in g}) == 1:
                tol = None
                for d in SHIFTS:
                    dd = d * cfg.beta
                    g2 = shift_game(g, dd)
                    if any(abs(m) > 20 * cfg.beta for T in g2 for m, _ in T):
                        continue
                    got = lib.rate(cfg.make(kind), g2, ranks=list(ranks))
                    rel += 1
                    if tol is None and kind in spaces.TM:
                        iv = ref.rate(kind, g, list(ranks), cfg.beta, cfg.kappa, cfg.tau)
                        tol = [[ref.width(iv[i][j]) for j in range(len(T))] for i, T in enumerate(g)]
                    for i, T in enumerate(g):
                        for j, (m, s) in enumerate(T):
                            bm, bs = base[i][j]
                            if kind in spaces.TM:
                                tolm, tols = tol[i][j]
                                tolm += REL * abs(dd)
                            else:
                                tolm, tols = REL * (abs(m) + abs(dd) + abs(bm - m) + s + cfg.tau), REL * bs
                            if abs((got[i][j][0] - dd) - bm) > tolm or abs(got[i][j][1] - bs) > tols:
                                msgs.append(("shift", f"{kind}: adding {dd!r} to every mu gives player[{i}][{j}] ({got[i][j][0] - dd!r}, {got[i][j][1]!r}) after shifting back, "
                                                      f"the original game gives ({bm!r}, {bs!r}); game {g} ranks {list(ranks)}"))
                                break
                        else:
                            continue
                        break
    except Exception as e:
        return [("exc", f"{kind}: rate raised {type(e).__name__}: {e}")], rel
    return msgs, rel


def eval_pred(kind, cfg, g):
    msgs = []
    rel = 0
    try:
        with core.watchdog():
            w, d, r = pred.predict_all(cfg.make(kind), g)
            base = list(w) + [d] + [p for _, p in r] + [float(k) for k, _ in r]
            variants = [("scale", k, Scaled(cfg, k), scale_game(g, k)) for k in SCALES]
            if len({len(T) for T in g}) == 1:
                for dsh in SHIFTS:
                    g2 = shift_game(g, dsh * cfg.beta)
                    if all(abs(m) <= 20 * cfg.beta for T in g2 for m, _ in T):
                        variants.append(("shift", dsh, cfg, g2))
            for what, k, c2, g2 in variants:
                w2, d2, r2 = pred.predict_all(c2.make(kind), g2)
                got = list(w2) + [d2] + [p for _, p in r2]
                rel += 1
                if any(abs(a - b_) > 1e-12 for a, b_ in zip(got, base)):
                    msgs.append((f"pred-{what}", f"{kind}: predictions change under {what} {k}: {got} vs {base[:len(got)]}; game {g}"))
    except Exception as e:
        return [("exc", f"{kind}: predictor raised {type(e).__name__}: {e}")], rel
    return msgs, rel


PLAN_RATE = [("S2", 6), ("P2", 12), ("P3", 12), ("T3", 12), ("T4|V4", 12)]
PLAN_PRED = [("G2", 8), ("G3|V12", 4), ("G4|V6", 6)]


def units(ctx):
    us = []
    for kind in spaces.KINDS:
        for sp, parts in PLAN_RATE + ([("T4", 48)] if ctx.thorough else []):
            for k in range(parts):
                us.append(("rate", kind, sp, k, parts))
        for sp, parts in PLAN_PRED + ([("G3", 16), ("G4", 16), ("G5", 8)] if ctx.thorough else []):
            for k in range(parts):
                us.append(("pred", kind, sp, k, parts))
    return us


def run_unit(unit, ctx):
    what, kind, sp, k, parts = unit
    cfg = spaces.config("K0")
    acc = core.Acc()
    if what == "rate":
        for g in spaces.sharded(spaces.value_games(sp, kind, cfg), k, parts):
            for ranks in spaces.outcomes_for(len(g)):
                msgs, rel = eval_rate(kind, cfg, g, ranks)
                acc.evals += 1 + rel
                acc.nontrivial += rel
                for w, m in msgs[:2]:
                    acc.violation(PID, f"{kind}:{w}", m, lib.case_game(kind, cfg, g, what="rate", ranks=list(ranks)))
        acc.sample(lib.case_game(kind, cfg, g, what="rate", ranks=list(ranks), scales=SCALES, shifts_in_beta=SHIFTS))
    else:
        for g in spaces.sharded(spaces.pred_games(sp, cfg), k, parts):
            msgs, rel = eval_pred(kind, cfg, g)
            acc.evals += 1 + rel
            acc.nontrivial += rel
            for w, m in msgs[:2]:
                acc.violation(PID, f"{kind}:{w}", m, lib.case_game(kind, cfg, g, what="pred"))
        acc.sample(lib.case_game(kind, cfg, g, what="pred"))
    return acc


def replay(case):
    kind, cfg, g = lib.uncase_game(case)
    if case["what"] == "rate":
        return [m for _, m in eval_rate(kind, cfg, g, tuple(case["ranks"]))[0]]
    return [m for _, m in eval_pred(kind, cfg, g)[0]]


def main(ctx, t0):
    acc = core.run_units(units(ctx), run_unit, ctx)
    return core.finish(PID, ctx, LEVEL, acc, RULE, {"exhaustive": True}, ASSUMPTIONS, t0)


def replay_unit(unit, ctx):
    return run_unit(unit, ctx)
