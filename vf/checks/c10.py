"""C10 - predict_draw is a probability, symmetric, and largest for evenly matched teams.  E1."""
import itertools

from vf import core, lib, pred, spaces
from vf.checks import c09

PID = "C10"
LEVEL = "exploration"
S = 1e-12
RULE = ("range clause on every game of G (K0; G2+G3 under K1,K9,K10) plus the sigma->0 / 16-player corner games; symmetry: all n! "
        "team permutations (n<=4) / transpositions and within-team reversals/rotations; gap ladder: for every shape and sigma "
        "pair of S2 the draw probability along the sorted |x| values of X41 (both signs) must be non-increasing; equalised "
        "twin: for every game of G3..G5, GP the game with all team totals moved to the mean must not have a lower draw "
        "probability; five classes; non-trivial = related presentation differs from the original game")
ASSUMPTIONS = ["range carries 1e-12 rounding slack (2*(2*Phi(Phi^-1(0.75))-1) evaluates to 1.0000000000000004)",
               "symmetry / monotonicity slack 1e-12"]


def draw(model, game):
    return model.predict_draw(lib.ratings(model, game))


def corner_games(cfg):
    """sigma -> 0 and large teams (the normaliser of the statement is tight at N=2, sigma=0)."""
    b = cfg.beta
    out = []
    for s in (0.0, 1e-4 * b, 2 * b):
        for m in (0.0, 6 * b, 20 * b, -20 * b):
            for n, size in ((2, 1), (2, 16), (3, 1), (8, 1), (3, 16), (8, 16)):
                out.append([[(m, s)] * size for _ in range(n)])
                g = [[(m, s)] * size for _ in range(n)]
                g[0] = [(6 * b, 10 * b)] * size
                out.append(g)
    return out


def equalised(game):
    tot = [sum(m for m, _ in T) for T in game]
    mean = sum(tot) / len(tot)
    g2 = []
    for T, t in zip(game, tot):
        T2 = list(T)
        T2[0] = (T2[0][0] + (mean - t), T2[0][1])
        g2.append(T2)
    return g2


def eval_game(kind, cfg, game, mode):
    model = cfg.make(kind)
    msgs = []
    rel = 0
    try:
        with core.watchdog():
            d = draw(model, game)
            if not isinstance(d, float) or not (-S <= d <= 1 + S):
                return [("range", f"{kind}.predict_draw = {d!r} outside [0,1] for {game}")], 0
            al = lib.ratings_aliased(model, game)
            if al is not None:
                d2 = model.predict_draw(al)
                if not (abs(d2 - d) <= S):
                    return [("alias", f"{kind}.predict_draw = {d2!r} when identical teams are one list object in several slots, {d!r} otherwise; {game}")], 1
            if mode == "basic":
                return [], 0
            n = len(game)
            for p in c09.team_perms(n, n <= 4):
                g2 = [game[p[i]] for i in range(n)]
                d2 = draw(model, g2)
                rel += 1 if g2 != game else 0
                if abs(d2 - d) > S:
                    msgs.append(("perm", f"{kind}.predict_draw depends on team order: {d!r} vs {d2!r} after permutation {p} of {game}"))
                    break
            for ti, T in enumerate(game):
                if len(T) > 1:
                    for T2 in (list(reversed(T)), list(T[1:]) + [T[0]]):
                        g2 = [list(t) for t in game]
                        g2[ti] = T2
                        d2 = draw(model, g2)
                        rel += 1 if T2 != list(T) else 0
                        if abs(d2 - d) > S:
                            msgs.append(("playerperm", f"{kind}.predict_draw depends on player order in team {ti}: {d!r} vs {d2!r}"))
            if n >= 2:
                ge = equalised(game)
                de = draw(model, ge)
                rel += 1 if ge != game else 0
                if de < d - S:
                    msgs.append(("equalise", f"{kind}.predict_draw: equalising all team totals lowers the draw probability {d!r} -> {de!r} (game {game})"))
    except Exception as e:
        return [("exc", f"{kind}.predict_draw raised {type(e).__name__}: {e}")], 0
    return msgs, rel


def ladders(cfg):
    """For every (shape, sa, sb) of S2: the games at |x| ascending, separately for each sign."""
    b = cfg.beta
    xs = sorted({abs(x) for x in spaces.X41})
    for (na, nb) in spaces.SHAPES_S2:
        for sa in spaces.S4 + [0.0]:
            for sb in spaces.S4 + [0.0]:
                c = spaces.c_pair("PL", cfg, na, sa, nb, sb)
                for sign in (1, -1):
                    lad = []
                    for x in xs:
                        gap = sign * x * c
                        mid = 6 * b * (na + nb) / 2
                        ma = (mid + gap / 2) / na
                        mb = (mid - gap / 2) / nb
                        if abs(ma) > 20 * b or abs(mb) > 20 * b:
                            break
                        lad.append([[(ma, sa * b)] * na, [(mb, sb * b)] * nb])
                    yield lad


def eval_ladder(kind, cfg, lad):
    model = cfg.make(kind)
    try:
        with core.watchdog():
            ds = [draw(model, g) for g in lad]
    except Exception as e:
        return [("exc", f"{kind}.predict_draw raised {type(e).__name__}: {e}")]
    for i in range(1, len(ds)):
        if ds[i] > ds[i - 1] + S:
            gap0 = sum(m for m, _ in lad[i - 1][0]) - sum(m for m, _ in lad[i - 1][1])
            gap1 = sum(m for m, _ in lad[i][0]) - sum(m for m, _ in lad[i][1])
            return [("ladder", f"{kind}.predict_draw increases from {ds[i-1]!r} to {ds[i]!r} as the gap in total mu widens from {gap0!r} to {gap1!r} (teams {lad[i]})")]
    return []


def plan(ctx):
    out = [(sp, K, "basic") for sp, K in pred.plan_spaces(ctx)]
    rel = [("G2", "K0", "rel"), ("G3|V12", "K0", "rel"), ("G3|VF", "K0", "rel"), ("G4|VF", "K0", "rel"), ("G4|V6", "K0", "rel"), ("G5|V4", "K0", "rel"), ("GP", "K0", "rel")]
    for K in spaces.PREDK[1:]:
        rel.append(("G3|V12", K, "rel"))
    if ctx.thorough:
        rel += [("G3", "K0", "rel"), ("G4", "K0", "rel"), ("G5", "K0", "rel"), ("G6", "K0", "rel"), ("G7", "K0", "rel"), ("G8", "K0", "rel")]
    return out + rel


def units(ctx):
    us = []
    for sp, K, mode in plan(ctx):
        parts = c09.PARTS[sp] * (3 if mode != "basic" else 1)
        for k in range(parts):
            us.append(("games", sp, K, mode, k, parts))
    for K in spaces.PREDK:
        for k in range(4):
            us.append(("ladder", K, k, 4))
        us.append(("corner", K))
    return us


def run_unit(unit, ctx):
    acc = core.Acc()
    if unit[0] == "ladder":
        _, K, k, parts = unit
        cfg = spaces.config(K)
        for lad in spaces.sharded(ladders(cfg), k, parts):
            if len(lad) < 2:
                continue
            for kind in spaces.KINDS:
                acc.evals += len(lad)
                acc.nontrivial += len(lad) - 1
                for what, msg in eval_ladder(kind, cfg, lad):
                    acc.violation(PID, f"{kind}:{what}", msg, {"what": "ladder", "kind": kind, "cfg": K, "ladder": [core.game_hex(g) for g in lad]})
        acc.sample({"what": "ladder", "cfg": K, "ladder_first_last": [lad[0], lad[-1]] if lad else None})
        return acc
    if unit[0] == "corner":
        cfg = spaces.config(unit[1])
        for game in corner_games(cfg):
            for kind in spaces.KINDS:
                msgs, rel = eval_game(kind, cfg, game, "rel" if len(game) <= 3 else "basic")
                acc.evals += 1 + rel
                acc.nontrivial += 1
                for what, msg in msgs[:2]:
                    acc.violation(PID, f"{kind}:{what}:corner", msg, pred.case(cfg, game, kind, mode="rel" if len(game) <= 3 else "basic", what="game"))
        return acc
    _, sp, K, mode, k, parts = unit
    cfg = spaces.config(K)
    for game in spaces.sharded(spaces.pred_games(sp, cfg), k, parts):
        for kind in spaces.KINDS:
            msgs, rel = eval_game(kind, cfg, game, mode)
            acc.evals += 1 + rel
            acc.nontrivial += rel if mode != "basic" else (1 if any(T != game[0] for T in game) else 0)
            for what, msg in msgs[:2]:
                acc.violation(PID, f"{kind}:{what}:n{min(len(game), 3)}", msg, pred.case(cfg, game, kind, mode=mode, what="game"))
    acc.sample(pred.case(cfg, game, mode=mode))
    return acc


def replay(case):
    if case.get("what") == "ladder":
        cfg = spaces.config(case["cfg"])
        return [m for _, m in eval_ladder(case["kind"], cfg, [core.game_unhex(g) for g in case["ladder"]])]
    cfg, game = pred.uncase(case)
    msgs, _ = eval_game(case["kind"], cfg, game, case["mode"])
    return [m for _, m in msgs]


def main(ctx, t0):
    acc = core.run_units(units(ctx), run_unit, ctx)
    return core.finish(PID, ctx, LEVEL, acc, RULE, {"exhaustive": True, "plan": [f"{a}/{b}/{c}" for a, b, c in plan(ctx)]}, ASSUMPTIONS, t0)


def replay_unit(unit, ctx):
    return run_unit(unit, ctx)
