"""C20 - ratings can be built, stored and restored without changing any later result.
E1 (construction / copy alphabet, rebuilt-vs-original differential) + E2/I5 (restore and deepcopy transitions
between any two operations)."""
import copy
import math
import itertools

from vf import core, e2, lib, pred, spaces
from vf.checks import c18

PID = "C20"
LEVEL = "model_checking"
RULE = ("construction: model.rating / create_rating for every (mu, sigma) of the 26-value alphabet (zeros, signed zeros, negatives, "
        "ints, huge/tiny) + bools x names {omitted, None, 'a', 'ü'} x every omission pattern, on default and non-default models, 5 "
        "classes; 10^4 ids distinct, also when the global random generator is re-seeded / restored between constructions and across a fork; deepcopy of ratings, teams and leagues; differential: every game of T3|V6, P3 and G4|V6 rated / "
        "predicted with the original objects, with objects rebuilt by create_rating([mu,sigma]), by model.rating(mu,sigma) and by "
        "deepcopy must give bit-identical numbers; E2: restore / deepcopy transitions interleaved with every operation of the "
        "reduced alphabet to depth 2 (thorough adds depth 4 over the small alphabet), I5 on every restore/copy transition and I2 (the call on players rebuilt from their (mu, sigma) on a "
        "fresh model == the call on the original objects) on EVERY transition; non-trivial = construction with at least one explicit non-default argument, or a differential "
        "case whose posterior differs from the prior")
ASSUMPTIONS = ["name='' and name=None both mean 'no name' (create_rating maps one to the other)",
               "'exactly the given values': == on the stored attribute, and identical IEEE bits when a float was given"]

NAMES = ["<omitted>", None, "a", "ü"]
VALUES = c18.ALPHA + [(True, False), (False, True), (0, 8.0), (25.0, 0)]


def same(a, b):
    if type(b) is float:
        return type(a) is float and a.hex() == b.hex()
    return a == b and not (type(a) is float and a != a)


def eval_construct(kind, mcfgname, mu, sigma, name, how):
    """how: 'rating:ms' (both given) 'rating:m' 'rating:s' 'rating:' | 'create'"""
    mkw = {} if mcfgname == "default" else {"mu": 30.0, "sigma": 5.0}
    model = spaces.model_class(kind)(**mkw)
    msgs = []
    try:
        if how == "create":
            args = [[mu, sigma]] + ([] if name == "<omitted>" else [name])
            r = model.create_rating(*args)
            want_mu, want_sigma = mu, sigma
        else:
            pat = how.split(":")[1]
            kw = {}
            if "m" in pat:
                kw["mu"] = mu
            if "s" in pat:
                kw["sigma"] = sigma
            if name != "<omitted>":
                kw["name"] = name
            r = model.rating(**kw)
            want_mu = mu if "m" in pat else model.mu
            want_sigma = sigma if "s" in pat else model.sigma
    except Exception as e:
        return [f"{kind}.{how}({mu!r},{sigma!r},name={name!r}) raised {type(e).__name__}: {e}"]
    if not same(r.mu, want_mu):
        msgs.append(f"{kind} {how}(mu={mu!r}, sigma={sigma!r}) on model({mkw}) holds mu={r.mu!r}, expected {want_mu!r}")
    if not same(r.sigma, want_sigma):
        msgs.append(f"{kind} {how}(mu={mu!r}, sigma={sigma!r}) on model({mkw}) holds sigma={r.sigma!r}, expected {want_sigma!r}")
    want_name = None if name in ("<omitted>", None) else name
    if r.name != want_name:
        msgs.append(f"{kind} {how}(name={name!r}) holds name={r.name!r}")
    if not (isinstance(r.id, str) and len(r.id) >= 8):
        msgs.append(f"{kind} {how} id = {r.id!r}")
    if type(r) is not type(model.rating()):
        msgs.append(f"{kind} {how} returned a {type(r).__name__}")
    return msgs


def eval_ids(kind):
    import random

    model = spaces.model_class(kind)()
    ids = set()
    for i in range(5000):
        ids.add(model.rating().id)
        ids.add(model.create_rating([25.0, 8.0]).id)
    msgs = [] if len(ids) == 10000 else [f"{kind}: {10000 - len(ids)} duplicate ids among 10^4 fresh ratings"]
    # uniqueness must not hinge on the state of the application's global random generator (re-seeded per season / per test)
    state = random.getstate()
    try:
        batch = []
        for rep in range(3):
            random.seed(12345)
            batch += [model.rating().id for _ in range(50)] + [model.create_rating([1.0, 2.0], "x").id for _ in range(50)]
        st = random.getstate()
        a = [model.rating().id for _ in range(20)]
        random.setstate(st)
        b_ = [model.rating().id for _ in range(20)]
        allids = batch + a + b_
        if len(set(allids)) != len(allids):
            msgs.append(f"{kind}: {len(allids) - len(set(allids))} duplicate ids among {len(allids)} fresh ratings when the application re-seeds / restores the global random generator between constructions")
    finally:
        random.setstate(state)
    # ... nor on state that a forked worker inherits from its parent (pre-fork servers, multiprocessing "fork")
    import os

    mine = []
    r_, w_ = os.pipe()
    pid = os.fork()
    if pid == 0:
        try:
            ids_c = [model.rating().id for _ in range(15)] + [model.create_rating([1.0, 2.0]).id for _ in range(15)]
            os.write(w_, ",".join(ids_c).encode())
        finally:
            os._exit(0)
    os.close(w_)
    mine = [model.rating().id for _ in range(15)] + [model.create_rating([1.0, 2.0]).id for _ in range(15)]
    data = b""
    while True:
        chunk = os.read(r_, 65536)
        if not chunk:
            break
        data += chunk
    os.close(r_)
    os.waitpid(pid, 0)
    theirs = data.decode().split(",") if data else []
    if len(theirs) != 30:
        raise core.HarnessError("forked id probe returned no data")
    common = set(mine) & set(theirs)
    if common:
        msgs.append(f"{kind}: {len(common)} of 30 ids created in a forked child are identical to ids created in the parent after the fork")
    return msgs


def eval_copy(kind, mu, sigma, name):
    model = spaces.model_class(kind)()
    r = model.rating(mu, sigma, None if name == "<omitted>" else name)
    msgs = []
    league = {"teams": [[r, model.rating(1.0, 2.0, "x")], [model.rating(3.0, 4.0)]], "solo": r}
    for label, obj, get in (("rating", r, lambda c: c), ("team list", [[r], [model.rating()]], lambda c: c[0][0]),
                            ("league dict", league, lambda c: c["teams"][0][0]), ("tuple", (r, [r]), lambda c: c[1][0])):
        try:
            c = get(copy.deepcopy(obj))
        except Exception as e:
            msgs.append(f"deepcopy of {label} raised {type(e).__name__}: {e}")
            continue
        if c is r:
            msgs.append(f"deepcopy of {label} returned the same object")
        if type(c) is not type(r) or not same(c.mu, r.mu) or not same(c.sigma, r.sigma) or c.name != r.name or c.id != r.id:
            msgs.append(f"deepcopy of {label}: ({r.mu!r},{r.sigma!r},{r.name!r},{r.id}) -> ({getattr(c,'mu',None)!r},{getattr(c,'sigma',None)!r},{getattr(c,'name',None)!r},{getattr(c,'id',None)})")
    # "in a distinct object": two copies taken of the same, unchanged rating are distinct from each other as well, and rating with one
    # of them leaves the other copy and the original as they were (a copy that is handed out twice is not a copy)
    try:
        t1 = copy.deepcopy([[r], [model.rating(3.0, 1.0, "y")]])
        t2 = copy.deepcopy([[r], [model.rating(3.0, 1.0, "y")]])
        s1 = copy.deepcopy(r)
        s2 = copy.deepcopy(r)
        if t1[0][0] is t2[0][0] or s1 is s2 or s1 is t1[0][0] or s2 is t2[0][0]:
            msgs.append("two deepcopies of one unchanged rating are the same object")
        before = (core.bits(r.mu), core.bits(r.sigma), core.bits(t2[0][0].mu), core.bits(t2[0][0].sigma), core.bits(s1.mu), core.bits(s1.sigma))
        if r.sigma > 0 and math.isfinite(r.mu) and abs(r.mu) < 1e6 and r.sigma < 1e6:
            model.rate(t1, ranks=[1, 0])
            after = (core.bits(r.mu), core.bits(r.sigma), core.bits(t2[0][0].mu), core.bits(t2[0][0].sigma), core.bits(s1.mu), core.bits(s1.sigma))
            if after != before:
                msgs.append("rating a game with one deepcopy of a rating changed the original or another copy of it")
    except Exception as e:
        msgs.append(f"deepcopy twice / rate with a copy raised {type(e).__name__}: {e}")
    # shared references inside one deepcopy stay consistent in value
    c2 = copy.deepcopy(league)
    if not (same(c2["solo"].mu, r.mu) and c2["solo"].id == r.id):
        msgs.append("deepcopy of a league with a shared rating lost values")
    return msgs


def rebuilds(model, game, how):
    orig = lib.ratings(model, game, [[f"n{i}{j}" for j in range(len(T))] for i, T in enumerate(game)])
    if how == "orig":
        return orig
    if how == "create":
        return [[model.create_rating([p.mu, p.sigma], p.name) for p in T] for T in orig]
    if how == "create-noname":
        return [[model.create_rating([p.mu, p.sigma]) for p in T] for T in orig]
    if how == "rating":
        return [[model.rating(p.mu, p.sigma) for p in T] for T in orig]
    if how == "deepcopy":
        return copy.deepcopy(orig)
    raise KeyError(how)


HOWS = ("create", "create-noname", "rating", "deepcopy")


def observe(model, game, how, ranks):
    out = {}
    t = rebuilds(model, game, how)
    out["rate"] = [core.bits(x) for x in lib.flat(lib.values(model.rate(t, ranks=list(ranks))))]
    out["win"] = [core.bits(x) for x in model.predict_win(rebuilds(model, game, how))]
    out["draw"] = core.bits(model.predict_draw(rebuilds(model, game, how)))
    out["rank"] = [(a, core.bits(b)) for a, b in model.predict_rank(rebuilds(model, game, how))]
    return out


def eval_diff(kind, cfg, game, ranks):
    model = cfg.make(kind)
    try:
        with core.watchdog():
            base = observe(model, game, "orig", ranks)
            msgs = []
            for how in HOWS:
                got = observe(cfg.make(kind), game, how, ranks)
                for k in base:
                    if got[k] != base[k]:
                        msgs.append(f"{kind}: {k} with players rebuilt via {how} gives {got[k]} but {base[k]} with the original objects (game {game}, ranks {list(ranks)})")
    except Exception as e:
        return [f"{kind}: {type(e).__name__}: {e}"]
    return msgs


def units(ctx):
    us = []
    for kind in spaces.KINDS:
        us.append(("construct", kind))
        us.append(("ids", kind))
        for sp, parts in (("T3|V6", 2), ("P3", 8)) + ((("T4|V4", 8),) if ctx.thorough else ()):
            for k in range(parts):
                us.append(("diff", kind, sp, k, parts))
    return us


def run_unit(unit, ctx):
    acc = core.Acc()
    what, kind = unit[0], unit[1]
    if what == "construct":
        for (mu, sigma) in VALUES:
            for name in NAMES:
                for mcfg in ("default", "custom"):
                    for how in ("rating:ms", "rating:m", "rating:s", "rating:", "create"):
                        acc.evals += 1
                        if how != "rating:" or name not in ("<omitted>", None):
                            acc.nontrivial += 1
                        for msg in eval_construct(kind, mcfg, mu, sigma, name, how):
                            acc.violation(PID, f"{kind}:construct:{how.split(':')[0]}", msg,
                                          {"what": "construct", "kind": kind, "mcfg": mcfg, "mu": core.hx(mu), "sigma": core.hx(sigma), "name": name, "how": how})
                acc.evals += 1
                acc.nontrivial += 1
                for msg in eval_copy(kind, mu, sigma, name):
                    acc.violation(PID, f"{kind}:deepcopy", msg, {"what": "copy", "kind": kind, "mu": core.hx(mu), "sigma": core.hx(sigma), "name": name})
            # the empty string is a name like any other for rating() and deepcopy (only create_rating reads a falsy name as "no name", I6)
            acc.evals += 1
            for msg in eval_copy(kind, mu, sigma, ""):
                acc.violation(PID, f"{kind}:deepcopy", msg, {"what": "copy", "kind": kind, "mu": core.hx(mu), "sigma": core.hx(sigma), "name": ""})
        acc.sample({"what": "construct", "kind": kind, "values": [list(v) for v in VALUES[:4]], "names": NAMES})
    elif what == "ids":
        acc.evals += 10000
        acc.nontrivial += 10000
        for msg in eval_ids(kind):
            acc.violation(PID, f"{kind}:ids", msg, {"what": "ids", "kind": kind})
    else:
        _, _, sp, k, parts = unit
        cfg = spaces.config("K0")
        for game in spaces.sharded(spaces.value_games(sp, kind, cfg), k, parts):
            n = len(game)
            for ranks in (tuple(range(n)), tuple(reversed(range(n))), (0,) * n, tuple([0, 0] + list(range(1, n - 1)))):
                acc.evals += len(HOWS)
                acc.nontrivial += len(HOWS)
                for msg in eval_diff(kind, cfg, game, ranks)[:2]:
                    acc.violation(PID, f"{kind}:rebuilt", msg, lib.case_game(kind, cfg, game, what="diff", ranks=list(ranks)))
        acc.sample(lib.case_game(kind, cfg, game, what="diff", ranks=list(ranks), rebuild=list(HOWS)))
    return acc


def replay(case):
    if case.get("engine") == "E2":
        core.deterministic_ids(0)
        return e2.replay(case)
    w = case["what"]
    if w == "construct":
        return eval_construct(case["kind"], case["mcfg"], core.unhx(case["mu"]), core.unhx(case["sigma"]), case["name"], case["how"])
    if w == "copy":
        return eval_copy(case["kind"], core.unhx(case["mu"]), core.unhx(case["sigma"]), case["name"])
    if w == "ids":
        return eval_ids(case["kind"])
    kind, cfg, game = lib.uncase_game(case)
    return eval_diff(kind, cfg, game, tuple(case["ranks"]))


def main(ctx, t0):
    acc = core.run_units(units(ctx), run_unit, ctx)
    core.deterministic_ids(0)
    searches = [(k, c, "reduced") for k in spaces.KINDS for c in (("default", "limit") if ctx.thorough else ("default",))]
    stats, a2 = e2.explore(searches, 2, ctx, chunk=16, invs=("I5", "I2", "R7"))
    if ctx.thorough:  # deeper histories over the small alphabet (depth 4: every state reachable by three calls is expanded)
        deep = [(k, c, "small") for (k, c, _) in searches]
        stats_d, a2d = e2.explore(deep, 4, ctx, chunk=64, invs=("I5", "I2", "R7"))
        stats.update(stats_d)
        a2.merge(a2d)
    restore_ops = {}
    for key in searches:
        s = e2._search(key)
        restore_ops[key] = {i for i, op in enumerate(s.ops) if op[0] in ("restore", "deepcopy")}
    for v in a2.violations:
        c = v["case"]
        key = tuple(c["search"])
        # I2 is the statement's last sentence verbatim: the differential leg re-builds every player from its (mu, sigma) on a fresh
        # model, so EVERY transition compares "rebuilt objects" with "the original objects" - not only those after a restore op
        if c["inv"] in ("I5", "I2", "R7"):
            v["property"] = PID
            v["key"] = "E2:" + v["key"]
            c["engine"] = "E2"
            acc.violations.append(v)
            acc.viol_count += 1
    states = sum(s["states"] for s in stats.values())
    transitions = sum(s["transitions"] for s in stats.values())
    acc.evals += transitions
    extra = {"exhaustive": True, "states": states, "transitions": transitions, "traces_validated_against_impl": transitions,
             "e2": {"/".join(k): v for k, v in stats.items()},
             "restore_or_copy_transitions": sum((s["transitions"] // s["ops"]) * 3 for s in stats.values())}
    return core.finish(PID, ctx, LEVEL, acc, RULE, extra, ASSUMPTIONS, t0)


def replay_unit(unit, ctx):
    if unit and isinstance(unit[0], (list, tuple)):  # an E2 expansion unit
        core.deterministic_ids(0)
        acc = e2._expand(unit, ctx)
        for v in acc.violations:
            v["key"] = "E2:" + v["key"]
        return acc
    return run_unit(unit, ctx)
