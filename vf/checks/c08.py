"""C08 - totality: valid games give finite ratings and probabilities, never an exception.  E1 over the corner space."""
import itertools
import math

from vf import core, lib, spaces

PID = "C08"
LEVEL = "exploration"
RULE = ("corner space: mu in {-20b,0,20b} x sigma in {0 (tau>0 only),1e-4b,2b,10b} x team size in {1,16} for TWO teams (all 24^2 "
        "combinations) while the other teams stay default, teams in {2,3,8}, every weak order (n<=3; quick: 4 at n=3) / every tie "
        "pattern (n=8), tau in {0,tau0,2b} x kappa in {1e-12,1e-4,1e-2} x beta in {1e-3,1,25/6,1e3} (quick: without beta=1 and "
        "kappa=1e-12; n=8 under a 3/12-config subset); rate and the three predictors of all five classes; oracle: normal return "
        "within the watchdog, every number finite, posterior sigma > 0; non-trivial = every case (each is a distinct corner)")
ASSUMPTIONS = ["interior points are covered by C01's spaces; team sizes strictly between 1 and 16 are not in the corner space"]


class CC:
    """corner configuration (not one of the K-configs)"""

    def __init__(self, beta, tau_b, kappa):
        self.beta, self.tau, self.kappa = beta, tau_b * beta, kappa
        self.name = f"beta={beta!r},tau={tau_b}b,kappa={kappa!r}"

    def make(self, kind):
        b = self.beta
        m = spaces.model_class(kind)(mu=6 * b, sigma=2 * b, beta=b, kappa=self.kappa, tau=self.tau)
        spaces.decoy_model(kind)
        return m


def configs(ctx, big=False):
    betas = [1e-3, 1.0, 25.0 / 6.0, 1e3] if ctx.thorough else [1e-3, 25.0 / 6.0, 1e3]
    kappas = [1e-12, 1e-4, 1e-2] if ctx.thorough else [1e-4, 1e-2]
    taus = [0.0, 0.02, 2.0]
    if not big:
        return [(b, t, k) for b in betas for t in taus for k in kappas]
    if ctx.thorough:
        return [(25.0 / 6.0, t, k) for t in taus for k in kappas] + [(b, 0.02, 1e-4) for b in (1e-3, 1.0, 1e3)]
    return [(25.0 / 6.0, 0.02, 1e-4), (25.0 / 6.0, 0.0, 1e-2), (1e3, 2.0, 1e-4)]


MUS = [-20.0, 0.0, 20.0]
SIGS = [0.0, 1e-4, 2.0, 10.0]


def team_variants(cfg, sizes=(1, 16)):
    out = []
    for m in MUS:
        for s in SIGS:
            if s == 0.0 and cfg.tau == 0:
                continue
            for sz in sizes:
                out.append([(m * cfg.beta, s * cfg.beta)] * sz)
    return out


def corner_games(cfg, n):
    tv = team_variants(cfg)
    default = [(6 * cfg.beta, 2 * cfg.beta)]
    for A in tv:
        for B in tv:
            if n == 8 and len(A) != len(B):
                continue
            g = [list(A), list(B)] + [list(default) for _ in range(n - 2)]
            if n == 8:
                # put the second deviating team at the far end so both ladder ends are exercised
                g = [list(A)] + [list(default) for _ in range(n - 2)] + [list(B)]
            yield g


def outcomes(ctx, n):
    if n == 2:
        return spaces.weak_orders(2)
    if n == 3:
        return spaces.weak_orders(3) if ctx.thorough else [(0, 1, 2), (2, 1, 0), (0, 0, 0), (1, 0, 0)]
    return spaces.tie_patterns(8) + [tuple(reversed(tp)) for tp in spaces.tie_patterns(8)[1:9]]


def finite(x):
    return isinstance(x, (int, float)) and math.isfinite(x)


def eval_rate(kind, cfg, g, ranks):
    model = cfg.make(kind)
    try:
        with core.watchdog():
            out = lib.rate(model, g, ranks=list(ranks))
    except Exception as e:
        return [f"{kind} [{cfg.name}] rate raised {type(e).__name__}: {e}; teams {[ (T[0], len(T)) for T in g]} ranks {list(ranks)}"]
    for i, T in enumerate(out):
        for j, (mu, sg) in enumerate(T):
            if not (finite(mu) and finite(sg) and sg > 0):
                return [f"{kind} [{cfg.name}] rate gives player[{i}][{j}] = ({mu!r}, {sg!r}); teams {[(T[0], len(T)) for T in g]} ranks {list(ranks)}"]
    return []


def eval_pred(kind, cfg, g):
    model = cfg.make(kind)
    msgs = []
    for name in ("predict_win", "predict_draw", "predict_rank"):
        try:
            with core.watchdog():
                r = getattr(model, name)(lib.ratings(model, g))
        except Exception as e:
            msgs.append(f"{kind} [{cfg.name}] {name} raised {type(e).__name__}: {e}; teams {[(T[0], len(T)) for T in g]}")
            continue
        nums = [r] if name == "predict_draw" else ([x for x in r] if name == "predict_win" else [x for pair in r for x in pair])
        if not all(finite(x) for x in nums):
            msgs.append(f"{kind} [{cfg.name}] {name} returned a non-finite number: {r}; teams {[(T[0], len(T)) for T in g]}")
    return msgs


def units(ctx):
    us = []
    for kind in spaces.KINDS:
        for n in (2, 3):
            for ci, c in enumerate(configs(ctx)):
                us.append((kind, n, c, 0, 1))
        for c in configs(ctx, big=True):
            for k in range(16):
                us.append((kind, 8, c, k, 16))
    return us


def run_unit(unit, ctx):
    kind, n, c, k, parts = unit
    cfg = CC(*c)
    acc = core.Acc()
    for g in spaces.sharded(corner_games(cfg, n), k, parts):
        for ranks in outcomes(ctx, n):
            acc.evals += 1
            acc.nontrivial += 1
            for m in eval_rate(kind, cfg, g, ranks):
                acc.violation(PID, f"{kind}:rate:n{n}", m, {"kind": kind, "cfg": list(c), "game": core.game_hex(g), "ranks": list(ranks), "op": "rate"})
        acc.evals += 3
        acc.nontrivial += 3
        for m in eval_pred(kind, cfg, g):
            acc.violation(PID, f"{kind}:predict:n{n}", m, {"kind": kind, "cfg": list(c), "game": core.game_hex(g), "op": "predict"})
    acc.sample({"kind": kind, "config": cfg.name, "teams": [[list(T[0]), len(T)] for T in g], "ranks": list(ranks)})
    return acc


def replay(case):
    cfg = CC(*case["cfg"])
    g = core.game_unhex(case["game"])
    if case["op"] == "rate":
        return eval_rate(case["kind"], cfg, g, tuple(case["ranks"]))
    return eval_pred(case["kind"], cfg, g)


def main(ctx, t0):
    acc = core.run_units(units(ctx), run_unit, ctx)
    return core.finish(PID, ctx, LEVEL, acc, RULE, {"exhaustive": True, "configs_small_n": len(configs(ctx)), "configs_n8": len(configs(ctx, True))}, ASSUMPTIONS, t0)


def replay_unit(unit, ctx):
    return run_unit(unit, ctx)
