"""C18 - comparison operators order players exactly as ordinal() does.  E1, exhaustive over a pair alphabet."""
import itertools
import math
import operator

from vf import core, spaces
from vf.core import hx, unhx

PID = "C18"
LEVEL = "exploration"
RULE = ("5 rating classes x all ordered pairs of a 26-value (mu, sigma) alphabet (equal ordinals with different components, "
        "negatives, zeros, signed zeros, ints, huge/tiny) x {<,<=,>,>=,==,!=}; ordinal(z) for z in {default,0,1,2.5,-1,3}; "
        "every foreign operand type on both sides; sorted() of every 4-subset; every ordered pair (v1, v2): a rating built as v1, "
        "used (ordinal, comparisons, sort, hash) and then set to v2 in place - as rate() does - must behave like a fresh v2;  non-trivial = pair with different "
        "(mu,sigma) bits, or a foreign operand, or a 4-subset containing an ordinal tie")
ASSUMPTIONS = ["NaN / infinite components are outside the alphabet", "ordinal(z) compared with the float expression mu - z*sigma to 2 ulp"]

ALPHA = [(3.0, 1.0), (6.0, 2.0), (0.0, 0.0), (-3.0, -1.0), (25.0, 25.0 / 3.0), (25.0, 8.0), (24.0, 8.0), (30.0, 10.0),
         (3, 1), (0, 0), (-0.0, 0.0), (0.0, -0.0), (-25.0, 25.0 / 3.0), (-25.0, -25.0 / 3.0), (1e-300, 0.0), (1e300, 1e299),
         (-1e300, 1e299), (1e308, -1e308), (5e-324, 0.0), (25.0, 1e-4), (25.000000000000004, 8.333333333333334),
         (2.5, 0.5), (1.0, 0.0), (0.0, -1.0 / 3.0), (100.0, 33.0), (1.0, 1.0 / 3.0)]
ZS = [None, 0, 1, 2.5, -1, 3, 3.0]
OPS = {"<": operator.lt, "<=": operator.le, ">": operator.gt, ">=": operator.ge}


def foreign_operands(kind, model):
    out = [("None", None), ("int", 0), ("float", 1.5), ("str", "x"), ("tuple", ()), ("list", [25.0, 8.0]), ("model", model),
           ("class", type(model))]
    for k2 in spaces.KINDS:
        if k2 != kind:
            out.append((f"rating:{k2}", spaces.model_class(k2)().rating(25.0, 8.0)))
    import importlib

    mod = importlib.import_module(spaces.model_class(kind).__module__)
    tr = getattr(mod, spaces.CLASSNAME[kind] + "TeamRating", None)
    if tr is not None:
        out.append(("team-rating", tr(25.0, 64.0, [model.rating()], 0)))
    return out


def expected_ordinal(mu, sigma, z):
    return mu - (3.0 if z is None else z) * sigma


def within_ulps(a, b, n=2):
    if a == b or (math.isnan(a) and math.isnan(b)):
        return True
    if math.isinf(a) or math.isinf(b):
        return False
    return abs(a - b) <= n * max(math.ulp(a), math.ulp(b))


def eval_pair(kind, va, vb):
    msgs = []
    m = spaces.model_class(kind)()
    a, b = m.rating(*va), m.rating(*vb)
    oa, ob = a.ordinal(), b.ordinal()
    for sym, op in OPS.items():
        try:
            got = op(a, b)
        except Exception as e:
            msgs.append(f"{va} {sym} {vb} raised {type(e).__name__}: {e}")
            continue
        want = op(oa, ob)
        if got is not want:
            msgs.append(f"rating{va} {sym} rating{vb} is {got!r} but ordinals {oa!r} {sym} {ob!r} is {want!r}")
    eq_want = (va[0] == vb[0]) and (va[1] == vb[1])
    try:
        if (a == b) is not eq_want:
            msgs.append(f"rating{va} == rating{vb} is {a == b!r}, components equal: {eq_want}")
        if (a != b) is not (not eq_want):
            msgs.append(f"rating{va} != rating{vb} is {a != b!r}, components equal: {eq_want}")
    except Exception as e:
        msgs.append(f"== / != raised {type(e).__name__}: {e}")
    return msgs


def eval_reassign(kind, v1, v2):
    """A rating object that has been used (ordinal, comparisons, sorting) and then had its values changed in place -
    which is what rate() does to the objects passed to it - must behave exactly like a fresh rating with the new values."""
    m = spaces.model_class(kind)()
    r = m.rating(*v1)
    partners = [m.rating(*v) for v in ALPHA[:8]]
    try:
        r.ordinal(); r.ordinal(1); r < partners[0]; r >= partners[1]; sorted([r] + partners[:2]); hash(r); r == partners[0]
        import copy

        snap = copy.deepcopy(r)  # same id, values of v1
        r.mu, r.sigma = v2[0], v2[1]
        f = m.rating(*v2)
        msgs = []
        same = (v1[0] == v2[0]) and (v1[1] == v2[1])
        if (snap == r) is not same or (snap != r) is not (not same) or (r == snap) is not same:
            msgs.append(f"{kind}: a deep copy taken at {v1} compared with its original after the original was set to {v2}: == gives {snap == r!r}, "
                        f"components equal: {same} (the copy shares the id)")
        for z in (None, 1):
            a = r.ordinal() if z is None else r.ordinal(z)
            b = f.ordinal() if z is None else f.ordinal(z)
            if core.bits(a) != core.bits(b):
                msgs.append(f"{kind}: rating created as {v1}, used, then set to {v2}: ordinal({'' if z is None else z}) = {a!r}, a fresh rating{v2} gives {b!r}")
        for p in partners:
            for sym, op in list(OPS.items()) + [("==", operator.eq), ("!=", operator.ne)]:
                if op(r, p) is not op(f, p) or op(p, r) is not op(p, f):
                    msgs.append(f"{kind}: rating created as {v1}, used, then set to {v2}: {sym} against rating({p.mu},{p.sigma}) differs from a fresh rating{v2}")
                    break
        return msgs[:3]
    except Exception as e:
        return [f"{kind}: reassign {v1}->{v2} raised {type(e).__name__}: {e}"]


def eval_ordinal(kind, v, z):
    m = spaces.model_class(kind)()
    r = m.rating(*v)
    try:
        got = r.ordinal() if z is None else r.ordinal(z)
    except Exception as e:
        return [f"ordinal({z}) raised {type(e).__name__}: {e}"]
    want = expected_ordinal(v[0], v[1], z)
    if not within_ulps(float(got), float(want)):
        return [f"rating{v}.ordinal({'' if z is None else z}) = {got!r}, expected mu - z*sigma = {want!r}"]
    return []


def eval_foreign(kind, v, fname):
    msgs = []
    m = spaces.model_class(kind)()
    r = m.rating(*v)
    f = dict(foreign_operands(kind, m))[fname]
    for sym, op in OPS.items():
        for left, right, desc in ((r, f, f"rating {sym} {fname}"), (f, r, f"{fname} {sym} rating")):
            try:
                res = op(left, right)
                msgs.append(f"{desc} returned {res!r} instead of raising ValueError")
            except ValueError:
                pass
            except Exception as e:
                msgs.append(f"{desc} raised {type(e).__name__} instead of ValueError: {e}")
    for left, right, desc in ((r, f, f"rating == {fname}"), (f, r, f"{fname} == rating")):
        try:
            if (left == right) is not False:
                msgs.append(f"{desc} is not False")
            if (left != right) is not True:
                msgs.append(f"{desc.replace('==', '!=')} is not True")
        except Exception as e:
            msgs.append(f"{desc} raised {type(e).__name__}: {e}")
    return msgs


def eval_sorted(kind, vs):
    m = spaces.model_class(kind)()
    rs = [m.rating(*v) for v in vs]
    try:
        got = sorted(rs)
    except Exception as e:
        return [f"sorted({vs}) raised {type(e).__name__}: {e}"]
    want = sorted(rs, key=lambda r: r.ordinal())
    if [id(x) for x in got] != [id(x) for x in want]:
        return [f"sorted(ratings {vs}) gives {[(r.mu, r.sigma) for r in got]}, leaderboard order by ordinal is {[(r.mu, r.sigma) for r in want]}"]
    return []


def units(ctx):
    us = []
    for kind in spaces.KINDS:
        us.append((kind, "pairs"))
        us.append((kind, "ordinal"))
        us.append((kind, "foreign"))
        us.append((kind, "reassign"))
        for k in range(3):
            us.append((kind, "sorted", k, 3))
    return us


def vcase(kind, what, **kw):
    d = {"kind": kind, "what": what}
    d.update(kw)
    return d


def enc(v):
    return [hx(v[0]), hx(v[1])]


def dec(v):
    return (unhx(v[0]), unhx(v[1]))


def run_unit(unit, ctx):
    kind, what = unit[0], unit[1]
    acc = core.Acc()
    if what == "pairs":
        for va in ALPHA:
            for vb in ALPHA:
                acc.evals += 1
                if va != vb or type(va[0]) is not type(vb[0]) or math.copysign(1, va[0]) != math.copysign(1, vb[0]) or math.copysign(1, va[1]) != math.copysign(1, vb[1]):
                    acc.nontrivial += 1
                for msg in eval_pair(kind, va, vb):
                    acc.violation(PID, f"{kind}:cmp", msg, vcase(kind, "pair", a=enc(va), b=enc(vb)))
        acc.sample({"kind": kind, "pair": [list(ALPHA[0]), list(ALPHA[1])], "ops": list(OPS) + ["==", "!="]})
    elif what == "ordinal":
        for v in ALPHA:
            for z in ZS:
                acc.evals += 1
                acc.nontrivial += 1
                for msg in eval_ordinal(kind, v, z):
                    acc.violation(PID, f"{kind}:ordinal", msg, vcase(kind, "ordinal", a=enc(v), z=z))
    elif what == "reassign":
        for v1 in ALPHA:
            for v2 in ALPHA:
                acc.evals += 1
                if v1 != v2:
                    acc.nontrivial += 1
                for msg in eval_reassign(kind, v1, v2):
                    acc.violation(PID, f"{kind}:reassign", msg, vcase(kind, "reassign", a=enc(v1), b=enc(v2)))
        acc.sample({"kind": kind, "what": "used rating re-assigned in place", "from": list(ALPHA[4]), "to": list(ALPHA[5])})
    elif what == "foreign":
        m = spaces.model_class(kind)()
        for fname, _ in foreign_operands(kind, m):
            for v in ALPHA[:6]:
                acc.evals += 1
                acc.nontrivial += 1
                for msg in eval_foreign(kind, v, fname):
                    acc.violation(PID, f"{kind}:foreign:{fname.split(':')[0]}", msg, vcase(kind, "foreign", a=enc(v), f=fname))
        acc.sample({"kind": kind, "foreign_operands": [f for f, _ in foreign_operands(kind, m)]})
    else:
        _, _, k, parts = unit
        for i, vs in enumerate(itertools.combinations(ALPHA, 4)):
            if i % parts != k:
                continue
            acc.evals += 1
            ords = [expected_ordinal(v[0], v[1], None) for v in vs]
            if len(set(ords)) < 4:
                acc.nontrivial += 1
            for order in (vs, tuple(reversed(vs))):
                for msg in eval_sorted(kind, order):
                    acc.violation(PID, f"{kind}:sorted", msg, vcase(kind, "sorted", vs=[enc(v) for v in order]))
    return acc


def replay(case):
    kind, what = case["kind"], case["what"]
    if what == "pair":
        return eval_pair(kind, dec(case["a"]), dec(case["b"]))
    if what == "ordinal":
        return eval_ordinal(kind, dec(case["a"]), case["z"])
    if what == "foreign":
        return eval_foreign(kind, dec(case["a"]), case["f"])
    if what == "reassign":
        return eval_reassign(kind, dec(case["a"]), dec(case["b"]))
    return eval_sorted(kind, [dec(v) for v in case["vs"]])


def main(ctx, t0):
    acc = core.run_units(units(ctx), run_unit, ctx)
    return core.finish(PID, ctx, LEVEL, acc, RULE, {"exhaustive": True, "alphabet_size": len(ALPHA)}, ASSUMPTIONS, t0)


def replay_unit(unit, ctx):
    return run_unit(unit, ctx)
