"""C14 - stateless calls: results independent of call history, identity, hash seed and interleaving.
E2 (history BFS, I1/I2) + E3 (schedule exploration) + hash-seed / id-salt alphabet (DESIGN §6 C14)."""
import json
import os
import subprocess
import time

from vf import core, e2, e3, reent, spaces

PID = "C14"
LEVEL = "model_checking"
RULE = ("E2: breadth-first search over call histories on the real code (5 classes x 3 model configs [thorough: 4]; full operation "
        "alphabet of 292 calls (outcomes as ranks; every plain call a second time with positive integer scores) under the default and limit_sigma models, reduced alphabet of 153 under tau=0 [thorough: full alphabet under all four incl. tau=2beta; "
        "everywhere]; depth 2, thorough adds depth 3 on the reduced alphabet; plus the option-toggle alphabet (33 calls on one pair of long-lived ratings: every per-call option combination x 3 outcomes, a foreign model's calls, mutate, restore, deepcopy, a rejected call) to depth 3, thorough 4; every history starts from a warm state (predictions made, two games rated between scratch ratings with the league's values); on every transition I1 (model "
        "snapshot unchanged) and I2 (bit-identical to the same call on a fresh model and fresh ratings with the same "
        "values, other ids and names; the same again with every rating carrying one id), I8 (a valid call leaves its teams / ranks / scores containers unchanged, so a "
        "caller that re-uses them gets answers independent of the earlier call). E3: every schedule with <= b preemptions of harnesses H1-H15 (H14/H15: identical games in both threads; also under cache pressure: 140/300 filler calls with fresh values before every execution) (2-3 threads sharing "
        "one model) at source-line and opcode granularity; each thread's result must be bit-identical to its solo result. "
        "The b <= 1 line-granularity search is repeated from a COLD START (every execution in a forked child of a process that has only imported the package), so lazily initialised shared state is created inside the explored execution. "
        "I1 is also evaluated over E1 spaces that reach the kappa floor, 6-8 teams, large custom gamma and big teams. Re-entrancy: every inner call executed inside every gamma invocation of every outer rate() on the same model. "
        "Seeds: the same exploration re-run under PYTHONHASHSEED in {0,1,2^32-1,VERIF_SEED} with different rating ids; "
        "digests of all observations must coincide.")
ASSUMPTIONS = [
    "preemption only between source lines / bytecodes of package frames; C-level calls are atomic under the GIL",
    "schedules with more preemptions than the bound, more than 3 threads, and hash seeds beyond the four enumerated are not covered",
    "rating ids come from uuid.uuid4, which the harness replaces by a counter (deterministic replay); ids are never part of an observation",
    "conflict census assumes the shared domain = model.__dict__ (depth 4) + module globals / class attributes / function defaults / functools caches",
]
INVS = ("I1", "I2", "I8", "R7")


def e3_plan(ctx):
    """(harness, kind, gran, bound, parts)"""
    plan = []
    for kind in spaces.KINDS:
        if ctx.thorough:
            for h in ("H1", "H2", "H3", "H6", "H8", "H9"):  # ~550-800 line points: b <= 2 is ~1.5e5-3e5 executions each
                plan.append((h, kind, "line", 2, 48))
                plan.append((h, kind, "opcode", 1, 4))
            for h in ("H4", "H7"):  # ~2000 line points: unrestricted b <= 2 would be ~2e6 executions per class: b <= 1 at both
                plan.append((h, kind, "line", 1, 2))  # granularities, b <= 2 with both preemptions inside the helper module
                plan.append((h, kind, "opcode", 1, 12))
                plan.append((h, kind, "line-helper", 2, 16))
            plan.append(("H5", kind, "line", 1, 8))
            for h in ("H13", "H14", "H15"):
                plan.append((h, kind, "line", 1, 2))
                plan.append((h, kind, "opcode", 1, 12))
            if kind in spaces.TM:  # the two classes that go through v / w / vt / wt
                plan.append(("H14", kind, "line-helper", 2, 16))
            plan.append(("H14P300", kind, "line", 1, 16))
            plan.append(("H15P300", kind, "line", 1, 16))
            for h in ("H10", "H11"):
                plan.append((h, kind, "line", 1, 2))
                plan.append((h, kind, "opcode", 1, 12))
                plan.append((h, kind, "line-helper", 2, 16))
            plan.append(("H12", kind, "line", 2, 8))
            plan.append(("H12", kind, "opcode", 1, 2))
        else:
            for h in ("H1", "H2", "H3", "H6", "H8", "H9"):
                plan.append((h, kind, "line", 1, 1))
            plan.append(("H4", kind, "line", 1, 4))  # H7 (predictors on games of different shapes) runs in the thorough tier; H13 and H15 cover the predictors here
            if kind in spaces.TM:  # b <= 2 with both preemptions inside the shared helper module (v, w, vt, wt, phi: only TM goes there)
                plan.append(("H8", kind, "line-helper", 2, 16))
            if kind in ("PL", "TMP"):  # opcode granularity (sub-line interleavings) on two classes; all five in the thorough tier
                plan.append(("H1", kind, "opcode", 1, 4))
            plan.append(("H5", kind, "line", 1, 6))
            for h in ("H10", "H11"):
                plan.append((h, kind, "line", 1, 2))
            for h in ("H13", "H14", "H15"):
                plan.append((h, kind, "line", 1, 6))
            if kind in spaces.TM:  # under cache pressure (300 filler calls > a 256-entry memo): the helpers only TM calls
                plan.append(("H14P300", kind, "line", 1, 8))
            plan.append(("H12", kind, "line", 1, 1))
            plan.append(("H12", kind, "opcode", 1, 2))
    return plan


def run_e3_unit(unit, ctx):
    _, h, kind, gran, bound, k, parts = unit
    acc = core.Acc()
    if h == "census":
        return acc
    mk = e3.harness(h, kind)
    helper_only = gran == "line-helper"
    if helper_only:
        gran = "line"
    res = e3.explore(mk, gran, bound, shard=(k, parts), end_choices="serial" if (h == "H5" and not ctx.thorough) else "all",
                     only_helper=helper_only)
    if helper_only:
        gran = "line-helper"
    n = sum(res["executions"])
    acc.evals += n
    acc.add(f"e3_executions", n)
    for b, c in enumerate(res["executions"]):
        acc.add(f"e3_executions_bound{b}", c)
    acc.add(f"e3_points:{h}:{kind}:{gran}", res["points"] if k == 0 else 0)
    acc.mx(f"e3_distinct_outcomes:{h}", len(res["outcomes"]), kind)
    acc.mx("e3_distinct_outcomes_max", len(res["outcomes"]), f"{h}:{kind}:{gran}")
    if res["capped"]:
        acc.add("e3_capped")
    acc.add("e3_unstable_executions", res["unstable"])
    if not res["baseline_stable"]:
        acc.add("e3_units_with_unstable_baseline")
    for v in res["violations"]:
        acc.violation(PID, f"E3:{h}:{kind}", "; ".join(v["msgs"])[:900],
                      {"engine": "E3", "harness": h, "kind": kind, "gran": gran, "dev": v["dev"], "first": v["first"]})
    if k == 0:
        acc.sample({"engine": "E3", "harness": h, "kind": kind, "granularity": gran, "bound": bound,
                    "points_per_thread": res["points_per_thread"], "executions_per_bound": res["executions"]})
    return acc


COLD_QUICK = ("H1", "H3", "H8", "H12", "H13", "H14")  # thorough: all fifteen


def _coldrun(args):
    env = dict(os.environ)
    env["PYTHONPATH"] = core.ROOT
    env["VERIF_REPO"] = core.REPO
    env["PYTHONHASHSEED"] = "0"
    p = subprocess.run([core.PY, "-m", "vf.coldrun"] + [str(a) for a in args], stdout=subprocess.PIPE, stderr=subprocess.PIPE, text=True,
                       env=env, cwd=core.ROOT, timeout=3600)
    if p.returncode != 0 or not p.stdout.strip():
        raise core.HarnessError(f"cold-start run {args} failed: {p.stderr[-600:]}")
    return json.loads(p.stdout.strip().splitlines()[-1])


def run_cold_unit(unit, ctx):
    """E3 from a cold start: a pristine process imports the package and every controlled execution runs in a forked child of it, so
    whatever the library initialises lazily on first use is initialised inside the explored execution (vf/coldrun.py)."""
    _, h, kind, bound = unit
    acc = core.Acc()
    res = _coldrun(["explore", h, kind, bound])
    n = sum(res["executions"])
    acc.evals += n
    acc.add("e3_cold_executions", n)
    acc.add(f"e3_cold_points:{h}:{kind}", res["points"])
    acc.mx("e3_cold_distinct_outcomes_max", res["outcomes"], f"{h}:{kind}")
    acc.add("e3_unstable_executions", res["unstable"])
    if not res["baseline_stable"]:
        acc.add("e3_units_with_unstable_baseline")
    for v in res["violations"]:
        acc.violation(PID, f"E3C:{h}:{kind}", ("from a cold start (first use of the library in the process): " + "; ".join(v["msgs"]))[:900],
                      {"engine": "E3C", "harness": h, "kind": kind, "dev": v["dev"], "first": v["first"]})
    acc.sample({"engine": "E3 cold start", "harness": h, "kind": kind, "bound": bound, "executions_per_bound": res["executions"]})
    return acc


def run_census_unit(unit, ctx):
    _, h, kind = unit
    acc = core.Acc()
    mk = e3.harness(h, kind)
    m, bodies = mk()
    for i in range(len(bodies)):
        c = e3.census(mk, i)
        acc.add("census_bodies")
        acc.add("census_points", c["points"])
        acc.add("census_shared_writes", len(c["writes"]))
        for w in c["writes"]:
            acc.add(f"census_write_at:{w['at']}")
    return acc


I1_SPACES = [("S2", "K7"), ("T3|V6", "K7"), ("T4|V3", "K7"), ("P3", "K2"), ("D7b1", "K0"), ("D8b1", "K0"), ("PK", "K0"), ("T4|V3", "K5")]


def run_i1_unit(unit, ctx):
    """I1 over the input space: the E2 league has at most 3 teams, so code that touches the model only in rare regions (the kappa
    floor, >= 6 teams, large custom gamma, big teams) is never reached there.  Here every game x outcome of a few E1 spaces that DO
    reach those regions is rated / predicted once and the model snapshot (and class / module level state) must be unchanged."""
    from vf import lib

    _, kind, sp, K, k, parts = unit
    cfg = spaces.config(K)
    acc = core.Acc()
    for game in spaces.sharded(spaces.value_games(sp, kind, cfg), k, parts):
        n = len(game)
        for ranks in (tuple(range(n)), tuple(reversed(range(n))), (0,) * n, tuple([0, 0] + list(range(1, n - 1)))):
            model = cfg.make(kind)
            s0 = e2.snap_model(model)
            try:
                model.rate(lib.ratings(model, game), ranks=list(ranks))
                t = lib.ratings(model, game)
                model.predict_win(t), model.predict_draw(t), model.predict_rank(t)
            except Exception:
                pass  # totality is C08's business
            acc.evals += 1
            acc.add("i1_space_calls", 4)
            s1 = e2.snap_model(model)
            if s1 != s0:
                acc.violation(PID, f"I1space:{kind}", f"model attributes changed by rate/predict on game {game} ranks {list(ranks)} [{K}]: {e2.diff_snap(s0, s1)}",
                              {"engine": "I1S", "kind": kind, "cfg": K, "game": core.game_hex(game), "ranks": list(ranks)})
    return acc


def dispatch(unit, ctx):
    if unit[0] == "i1":
        return run_i1_unit(unit, ctx)
    if unit[0] == "e3":
        return run_e3_unit(unit, ctx)
    if unit[0] == "census":
        return run_census_unit(unit, ctx)
    if unit[0] == "cold":
        return run_cold_unit(unit, ctx)
    if unit[0] == "reent":
        _, kind = unit
        acc = core.Acc()
        res = reent.explore(kind)
        acc.evals += res["executions"]
        acc.add("reentrancy_executions", res["executions"])
        acc.add("reentrancy_gamma_points", res["points"])
        acc.mx("reentrancy_distinct_outcomes", res["distinct_outcomes"], kind)
        for v in res["violations"]:
            acc.violation(PID, f"REENT:{kind}", "; ".join(v["msgs"])[:900],
                          {"engine": "REENT", "kind": kind, "limit": v["limit"], "outer": v["outer"], "inner": v["inner"], "k": v["k"]})
        acc.sample({"engine": "REENT", "kind": kind, "what": "inner call on the same model executed inside the k-th gamma invocation of an outer rate()",
                    "executions": res["executions"]})
        return acc
    if unit[0] == "free":
        _, h, kind, iters = unit
        acc = core.Acc()
        bad = e3.free_run(e3.harness(h, kind), iters)
        acc.add("free_running_iterations", iters)
        acc.evals += iters
        if bad:
            acc.violation(PID, f"FREE:{h}:{kind}", f"free-running threads: iterations {bad[:5]} differ from the serial result",
                          {"engine": "FREE", "harness": h, "kind": kind, "iters": iters})
        return acc
    raise core.HarnessError(f"bad unit {unit}")


def seed_runs_start(ctx):
    seeds = [0, 1, 2 ** 32 - 1, ctx.seed % (2 ** 32)]
    procs = []
    for salt, hs in enumerate(seeds):
        env = dict(os.environ)
        env["PYTHONHASHSEED"] = str(hs)
        env["PYTHONPATH"] = core.ROOT
        env["VERIF_REPO"] = core.REPO
        p = subprocess.Popen([core.PY, "-m", "vf.seedrun", str(salt + 1), "2"], stdout=subprocess.PIPE,
                             stderr=subprocess.PIPE, text=True, env=env, cwd=core.ROOT)
        procs.append((hs, salt + 1, p))
    return procs


def seed_runs_collect(procs, acc):
    outs = []
    for hs, salt, p in procs:
        out, err = p.communicate(timeout=1800)
        if p.returncode != 0:
            raise core.HarnessError(f"seed run (PYTHONHASHSEED={hs}) failed: {err[-500:]}")
        outs.append(json.loads(out.strip().splitlines()[-1]))
    digests = {o["digest"] for o in outs}
    acc.add("seed_runs", len(outs))
    acc.add("seed_run_transitions", sum(o["transitions"] for o in outs))
    acc.evals += sum(o["transitions"] for o in outs)
    if len(digests) != 1:
        bad = sorted({k for o in outs for k in o["per_class"] if o["per_class"][k] != outs[0]["per_class"][k]})
        acc.violation(PID, "SEED:digest", f"the same exploration gives different observations in processes that differ only in hash seed, rating ids and "
                      f"pre-history (decoy calls on OTHER model objects): classes {bad}; runs {[(o['hashseed'], o['prelude'], o['digest'][:12]) for o in outs]}",
                      {"engine": "SEED", "seeds": [o["hashseed"] for o in outs]})
    return outs


def replay(case):
    eng = case.get("engine", "E2")
    if eng == "E2":
        core.deterministic_ids(0)
        return e2.replay(case)
    if eng == "E3":
        mk = e3.harness(case["harness"], case["kind"])
        snap0, solo_res = e3.solo(mk)
        e3.baseline(mk, case["gran"].replace("-helper", ""), len(solo_res))
        dev = {int(k): v for k, v in case["dev"].items()}
        ex = e3.run_once(mk, dev, case["first"], case["gran"].replace("-helper", ""))
        ex.probe_expected = getattr(mk, "probe_expected", None)
        try:
            return e3.check(ex, snap0, solo_res)
        except e3.Unstable:
            return []
    if eng == "E3C":
        return _coldrun(["replay", case["harness"], case["kind"], case["first"], json.dumps(case["dev"])])["msgs"]
    if eng == "I1S":
        from vf import lib

        cfg = spaces.config(case["cfg"])
        game = core.game_unhex(case["game"])
        model = cfg.make(case["kind"])
        s0 = e2.snap_model(model)
        try:
            model.rate(lib.ratings(model, game), ranks=list(case["ranks"]))
            t = lib.ratings(model, game)
            model.predict_win(t), model.predict_draw(t), model.predict_rank(t)
        except Exception:
            pass
        s1 = e2.snap_model(model)
        return [] if s1 == s0 else [f"model attributes changed: {e2.diff_snap(s0, s1)}"]
    if eng == "REENT":
        return reent.replay(case["kind"], case["limit"], case["outer"], case["inner"], case["k"])
    if eng == "SEED":
        acc = core.Acc()
        ctx = core.Ctx("quick", 0, 1)
        seed_runs_collect(seed_runs_start(ctx), acc)
        return [v["msg"] for v in acc.violations]
    if eng == "FREE":
        bad = e3.free_run(e3.harness(case["harness"], case["kind"]), case["iters"])
        return [f"free-running iterations {bad[:5]} differ from the serial result"] if bad else []
    raise core.HarnessError(f"unknown engine {eng}")


def pre_import():
    e3.install_lock_shim()


def main(ctx, t0):
    e3.install_lock_shim()
    core.deterministic_ids(0)
    # VERIF_C14_PARTS (tooling only: bin/seed-keep runs against seeded changes) restricts the run to some of its parts; every part only
    # ever ADDS violations, so a restricted run that reports one proves that the full check reports it.  Unset = everything.
    parts = set((os.environ.get("VERIF_C14_PARTS") or "e2,toggle,e3,cold,census,reent,i1,seed").split(","))
    procs = seed_runs_start(ctx) if "seed" in parts else []
    # ---- E2
    searches = [(k, c, "full" if c in ("default", "limit") or ctx.thorough else "reduced") for k in spaces.KINDS for c in e2.MODEL_CFGS
                if ctx.thorough or c != "tau2b"] if "e2" in parts else [(k, "default", "small") for k in spaces.KINDS]
    stats, acc = e2.explore(searches, 2, ctx, invs=INVS)
    tog = [(k, c, "toggle") for k in spaces.KINDS for c in ("default", "limit")] if "toggle" in parts else []
    stats_t, acc_t = e2.explore(tog, 4 if ctx.thorough else 3, ctx, chunk=32, invs=INVS) if tog else ({}, core.Acc())
    stats.update(stats_t)
    acc.merge(acc_t)
    stats3 = {}
    if ctx.thorough:
        searches3 = [(k, "default", "reduced") for k in spaces.KINDS]
        stats3, acc3 = e2.explore(searches3, 3, ctx, chunk=32, invs=INVS)
        acc.merge(acc3)
    # keep only the invariants this property owns
    keep = core.Acc()
    keep.evals = acc.evals
    keep.count = {k: v for k, v in acc.count.items() if not k.startswith("viol:") or k.split(":")[1] in INVS}
    for v in acc.violations:
        if v["case"]["inv"] in INVS:
            v["property"] = PID
            v["key"] = "E2:" + v["key"]
            v["case"]["engine"] = "E2"
            keep.violations.append(v)
    keep.viol_count = sum(n for k, n in acc.count.items() if k.startswith("viol:") and k.split(":")[1] in INVS)
    states = sum(s["states"] for s in stats.values()) + sum(s["states"] for s in stats3.values())
    transitions = sum(s["transitions"] for s in stats.values()) + sum(s["transitions"] for s in stats3.values())
    merges = sum(s["merges"] for s in stats.values()) + sum(s["merges"] for s in stats3.values())
    # ---- E3
    units = []
    for (h, kind, gran, bound, nparts) in (e3_plan(ctx) if "e3" in parts else []):
        for k in range(nparts):
            units.append(("e3", h, kind, gran, bound, k, nparts))
    for kind in spaces.KINDS:
        for h in (e3.HARNESSES if ctx.thorough else ("H1", "H4", "H5", "H8")):
            if "census" in parts:
                units.append(("census", h, kind))
    for kind in spaces.KINDS:
        for h in (e3.HARNESSES if ctx.thorough else COLD_QUICK):
            if "cold" in parts:
                units.append(("cold", h, kind, 1))
    for kind in spaces.KINDS:
        if "reent" in parts:
            units.append(("reent", kind))
        for sp, K in I1_SPACES:
            for k in range(2):
                if "i1" in parts:
                    units.append(("i1", kind, sp, K, k, 2))
    if ctx.thorough:
        for kind in spaces.KINDS:
            for h in ("H1", "H5"):
                units.append(("free", h, kind, 300))
    acc_e3 = core.run_units(units, dispatch, ctx)
    keep.merge(acc_e3)
    # ---- seeds
    seed_out = seed_runs_collect(procs, keep) if procs else []
    keep.nontrivial = sum(s["states"] for s in stats.values())
    s0 = next(iter(stats))
    sr = e2._search(s0)
    keep.samples.insert(0, {"engine": "E2", "search": list(s0), "history": [e2.describe(sr.ops[3]), e2.describe(sr.ops[min(130, len(sr.ops) - 1)])],
                           "checked": "I1, I2 on every transition of this history"})
    shared_writes = keep.count.get("census_shared_writes", 0)
    extra = {
        "states": states, "transitions": transitions, "traces_validated_against_impl": transitions,
        "merges": merges, "exhaustive": not keep.count.get("e3_capped"),
        "e2_searches": {"/".join(k): {a: b for a, b in v.items()} for k, v in list(stats.items()) + list(stats3.items())},
        "e3_schedules_explored": keep.count.get("e3_executions", 0),
        "e3_schedules_per_preemption_bound": {k[-1]: v for k, v in keep.count.items() if k.startswith("e3_executions_bound")},
        "e3_distinct_outcome_vectors_max": keep.maxi.get("e3_distinct_outcomes_max", (0, None))[0],
        "e3_unstable": {"executions_skipped": keep.count.get("e3_unstable_executions", 0),
                        "units_with_unstable_baseline": keep.count.get("e3_units_with_unstable_baseline", 0),
                        "meaning": "schedules whose recorded point sequence could not be replayed because the library's control flow "
                                   "depended on earlier executions in the process; 0 means every schedule was executed exactly as enumerated"},
        "census": {"shared_writes": shared_writes,
                   "conclusion": ("no step of any harness body writes the shared domain, so all interleavings (any number of "
                                  "preemptions) are Mazurkiewicz-equivalent to a serial order" if shared_writes == 0 else
                                  "shared writes exist; only the bounded search decides")},
        "seed_runs": seed_out,
        "e3_cold_start": {"executions": keep.count.get("e3_cold_executions", 0),
                          "distinct_outcome_vectors_max": keep.maxi.get("e3_cold_distinct_outcomes_max", (0, None))[0],
                          "meaning": "the same schedule exploration (b <= 1, line granularity) with every execution in a forked child of a process "
                                     "that has imported the package and never used it: lazily initialised library state is initialised inside the explored execution"},
        "reentrancy": {"executions": keep.count.get("reentrancy_executions", 0), "gamma_points": keep.count.get("reentrancy_gamma_points", 0)},
    }
    return core.finish(PID, ctx, LEVEL, keep, RULE, extra, ASSUMPTIONS, t0)


def replay_unit(unit, ctx):
    if unit and unit[0] in ("e3", "census", "free", "reent", "i1", "cold"):
        return dispatch(unit, ctx)
    core.deterministic_ids(0)
    acc = e2._expand(unit, ctx)
    for v in acc.violations:
        v["key"] = "E2:" + v["key"]
    return acc
