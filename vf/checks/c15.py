"""C15 - per-call tau / limit_sigma mean exactly what the model-level setting means.
E1 metamorphic: two real executions per comparison (DESIGN §6 C15)."""
from vf import core, e2, lib, spaces

PID = "C15"
LEVEL = "model_checking"
REL = 1e-12
RULE = ("games: S2 and T3|V6, sigma alphabets extended by 0.01*beta so both options are visible, every weak order (given as ranks or as scores, alternating); per game "
        "24 comparisons Model(s').rate(g, arg) == Model(arg).rate(g): tau arg in {0, 0.0, 1e-300, tau0, 2beta} x model tau "
        "in {0, tau0, 2beta}; limit_sigma arg in {True, False} x model limit_sigma in {False, True}; explicit None == "
        "omitted == own setting; two mixed tau+limit_sigma calls; on T3 (thorough: everywhere) additionally the FULL option matrix: model "
        "(tau in {0,tau0,2beta}) x (limit_sigma in {F,T}) x per-call tau in {omitted,0,tau0,2beta} x per-call limit_sigma in "
        "{omitted,T,F} = 66 comparisons; 5 classes; non-trivial = the per-call value differs from "
        "the model's own AND the two model-level settings give different posteriors for this game")
ASSUMPTIONS = ["'identical' read as 1e-12 relative (two code paths may round differently after a refactor)",
               "tau/limit_sigma arguments of wrong type are not in the statement"]

S5X = [1e-4, 0.01, 1, 2, 10]
V7 = spaces.V6 + [(6, 0.01)]


def games(space, kind, cfg):
    if space == "S2x":
        return spaces.games_S2(kind, cfg, sig=S5X)
    if space == "T3x":
        return spaces.games_T(3, V7, cfg)
    if space == "P2":
        return spaces.games_P2(cfg)
    if space == "T3":
        return spaces.games_T(3, spaces.V12 + [(6, 0.01)], cfg)
    raise KeyError(space)


def mk(kind, cfg, tau, ls):
    kw = cfg.kwargs()
    kw["tau"] = tau
    kw["limit_sigma"] = ls
    m = spaces.model_class(kind)(**kw)
    spaces.decoy_model(kind)
    return m


def differs(a, b, game):
    worst = 0.0
    for Ta, Tb, Tg in zip(a, b, game):
        for (ma, sa), (mb, sb), (m0, s0) in zip(Ta, Tb, Tg):
            dm = abs(ma - mb) / (abs(ma) + abs(mb) + s0 + 1e-300)
            ds = abs(sa - sb) / (abs(sa) + abs(sb) + 1e-300)
            worst = max(worst, dm, ds)
    return worst


def comparisons(cfg):
    """(label, key, model (tau, ls), call kwargs, target base (tau, ls))"""
    t0, big = cfg.tau if cfg.tau > 0 else 0.02 * cfg.beta, 2 * cfg.beta
    out = []
    for mt, mname in ((0.0, "0"), (t0, "tau0"), (big, "2beta")):
        for t, tname in ((0, "int0"), (0.0, "0.0"), (1e-300, "tiny"), (t0, "tau0"), (big, "2beta")):
            out.append((f"Model(tau={mname}).rate(tau={tname})", f"tau={tname}", (mt, False), {"tau": t}, (float(t), False)))
        out.append((f"Model(tau={mname}).rate(tau=None, limit_sigma=None)", "none", (mt, False), {"tau": None, "limit_sigma": None}, (mt, False)))
    for ml in (False, True):
        for b in (True, False):
            out.append((f"Model(limit_sigma={ml}).rate(limit_sigma={b})", f"limit_sigma={b}", (t0, ml), {"limit_sigma": b}, (t0, b)))
    out.append(("Model().rate(tau=0, limit_sigma=True)", "tau=int0+limit_sigma=True", (t0, False), {"tau": 0, "limit_sigma": True}, (0.0, True)))
    out.append(("Model(tau=2beta, limit_sigma=True).rate(tau=tau0, limit_sigma=False)", "tau=tau0+limit_sigma=False", (big, True), {"tau": t0, "limit_sigma": False}, (t0, False)))
    out.append(("Model(limit_sigma=True).rate() [omitted]", "omitted", (t0, True), {}, (t0, True)))
    return out


def matrix(cfg):
    """Full option matrix: model (tau, limit_sigma) x per-call (tau, limit_sigma); same tuple format as comparisons()."""
    t0, big = cfg.tau if cfg.tau > 0 else 0.02 * cfg.beta, 2 * cfg.beta
    names = {0.0: "0", t0: "tau0", big: "2beta"}
    out = []
    for mt in (0.0, t0, big):
        for ml in (False, True):
            for t in (None, 0, t0, big):
                for l in (None, True, False):
                    if t is None and l is None:
                        continue
                    kw = {}
                    if t is not None:
                        kw["tau"] = t
                    if l is not None:
                        kw["limit_sigma"] = l
                    tgt = (mt if t is None else float(t), ml if l is None else l)
                    label = f"Model(tau={names[mt]}, limit_sigma={ml}).rate({', '.join(f'{k}={names.get(v, v) if k == 'tau' else v}' for k, v in kw.items())})"
                    key = ("tau=" + ("omitted" if t is None else names[float(t)])) + "+" + ("limit_sigma=" + ("omitted" if l is None else str(l)))
                    out.append((label, "matrix:" + key, (mt, ml), kw, tgt))
    return out


def eval_case(kind, cfg, game, ranks, only=None, table=None):
    msgs = []
    base = {}
    nt = ev = 0

    # the outcome is given as ranks for half of the weak orders and as scores for the other half (same on both sides)
    enc = {"scores": [-x for x in ranks]} if (sum(ranks) + len(ranks)) % 2 else {"ranks": list(ranks)}

    def target(key):
        if key not in base:
            base[key] = lib.rate(mk(kind, cfg, *key), game, **enc)
        return base[key]

    for (label, key, mset, kw, tgt) in (table if table is not None else comparisons(cfg) + matrix(cfg)):
        if only is not None and label != only:
            continue
        ev += 1
        try:
            with core.watchdog():
                got = lib.rate(mk(kind, cfg, *mset), game, **enc, **kw)
                want = target(tgt)
                own = target(mset)
        except Exception as e:
            msgs.append((key, label, f"{label} raised {type(e).__name__}: {e}"))
            continue
        d = differs(got, want, game)
        if mset != tgt and differs(own, want, game) > REL:
            nt += 1
        if d > REL:
            msgs.append((key, label, f"{label} on ranks={list(ranks)} gives {got}; a model constructed with tau={tgt[0]!r}, "
                         f"limit_sigma={tgt[1]} gives {want} (rel. diff {d:.3g}); the model's own setting gives {own}"))
    return msgs, nt, ev


def units(ctx):
    us = []
    for kind in spaces.KINDS:
        for sp, parts in ((("S2x", 10), ("T3x", 12)) if not ctx.thorough else (("S2x", 10), ("T3x", 4), ("P2", 12), ("T3", 16))):
            for k in range(parts):
                us.append((kind, "K0", sp, k, parts))
        if ctx.thorough:
            for K in ("K1", "K2", "K9"):
                for k in range(4):
                    us.append((kind, K, "T3x", k, 4))
    return us


def run_unit(unit, ctx):
    kind, K, sp, k, parts = unit
    cfg = spaces.config(K)
    acc = core.Acc()
    table = comparisons(cfg) + (matrix(cfg) if sp != "S2x" or ctx.thorough else [])
    for game in spaces.sharded(games(sp, kind, cfg), k, parts):
        for ranks in spaces.weak_orders(len(game)):
            msgs, nt, ev = eval_case(kind, cfg, game, ranks, table=table)
            acc.evals += ev
            acc.nontrivial += nt
            for key, label, m in msgs:
                acc.violation(PID, f"{kind}:{key}", m, lib.case_game(kind, cfg, game, ranks=list(ranks), label=label))
        if not acc.samples:
            acc.sample(lib.case_game(kind, cfg, game, ranks=list(ranks), label=comparisons(cfg)[0][0]))
    return acc


def replay(case):
    if case.get("engine") == "E2":
        core.deterministic_ids(0)
        return e2.replay(case)
    kind, cfg, game = lib.uncase_game(case)
    msgs, _, _ = eval_case(kind, cfg, game, tuple(case["ranks"]), only=case["label"])
    return [m for _, _, m in msgs]


def main(ctx, t0):
    acc = core.run_units(units(ctx), run_unit, ctx)
    core.deterministic_ids(0)
    searches = [(k, c, "reduced") for k in spaces.KINDS for c in ("default", "limit", "tau0", "tau2b")]
    stats, a2 = e2.explore(searches, 2, ctx, chunk=16, invs=("I6",))
    # option toggling on one pair of long-lived rating objects, depth 3 (thorough: 4): see e2.ops_toggle
    tog = [(k, c, "toggle") for k in spaces.KINDS for c in ("default", "limit", "tau0")]
    stats_t, a2t = e2.explore(tog, 4 if ctx.thorough else 3, ctx, chunk=32, invs=("I6",))
    stats.update(stats_t)
    a2.merge(a2t)
    if ctx.thorough:  # deeper histories over the small alphabet (depth 4: every state reachable by three calls is expanded)
        deep = [(k, c, "small") for (k, c, _) in searches]
        stats_d, a2d = e2.explore(deep, 4, ctx, chunk=64, invs=("I6",))
        stats.update(stats_d)
        a2.merge(a2d)
    for v in a2.violations:
        v["property"] = PID
        v["key"] = "E2:" + v["key"]
        v["case"]["engine"] = "E2"
        acc.violations.append(v)
    for k, c in a2.count.items():
        if k.startswith("viol:I6"):
            acc.count[k] = c
            acc.viol_count += c
    states = sum(s["states"] for s in stats.values())
    transitions = sum(s["transitions"] for s in stats.values())
    acc.evals += transitions
    extra = {"exhaustive": True, "comparisons_per_game": len(comparisons(spaces.config("K0"))), "states": states,
             "transitions": transitions, "traces_validated_against_impl": transitions, "e2": {"/".join(k): v for k, v in stats.items()}}
    return core.finish(PID, ctx, LEVEL, acc, RULE, extra, ASSUMPTIONS, t0)


def replay_unit(unit, ctx):
    if unit and isinstance(unit[0], (list, tuple)):  # an E2 expansion unit
        core.deterministic_ids(0)
        acc = e2._expand(unit, ctx)
        for v in acc.violations:
            v["key"] = "E2:" + v["key"]
        return acc
    return run_unit(unit, ctx)
