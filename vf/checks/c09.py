"""C09 - predict_win is a probability distribution that respects symmetry and skill.  E1, invariant + metamorphic."""
import itertools

from vf import core, lib, pred, spaces

PID = "C09"
LEVEL = "exploration"
S = 1e-12
RULE = ("basic clauses (length, each in [0,1], sum 1, same-valued teams equal, two identical teams exactly 1/2) on every game of "
        "the prediction space G under K0 and G2+G3 under K1,K9,K10, all five classes; permutation clause: all n! team "
        "permutations (n<=4 on G4|V6; thorough: all of G4) / all transpositions (n>=5), plus every within-team permutation "
        "on multi-player games; monotonicity clause: for EVERY player slot the increments {+2^-20 beta, +beta, +10 beta}: "
        "own team not lower, every other team not higher; non-trivial = related presentation whose expected result differs "
        "from the original's (non-identity permutation of non-identical teams, or increment)")
ASSUMPTIONS = ["1e-12 absolute slack on range, sum, symmetry and monotonicity (two evaluations may round differently)",
               "values between alphabet points not covered"]
INCS = (spaces.D, 1.0, 10.0)


def win(model, game):
    return model.predict_win(lib.ratings(model, game))


def team_perms(n, full):
    if full:
        return [p for p in itertools.permutations(range(n)) if p != tuple(range(n))]
    out = []
    for i in range(n):
        for j in range(i + 1, n):
            p = list(range(n))
            p[i], p[j] = p[j], p[i]
            out.append(tuple(p))
    return out


def basic(kind, cfg, game, w):
    msgs = []
    n = len(game)
    if not isinstance(w, list) or len(w) != n:
        return [("len", f"{kind}.predict_win returned {w!r} for {n} teams")]
    for i, p in enumerate(w):
        if not (-S <= p <= 1 + S):
            msgs.append(("range", f"{kind}.predict_win[{i}] = {p!r} outside [0,1]: {w}"))
    if abs(sum(w) - 1) > S * n:
        msgs.append(("sum", f"{kind}.predict_win sums to {sum(w)!r}: {w}"))
    for i in range(n):
        for j in range(i + 1, n):
            if game[i] == game[j] and abs(w[i] - w[j]) > S:
                msgs.append(("identical", f"{kind}.predict_win gives identical teams {i},{j} different values {w[i]!r} {w[j]!r}"))
    if n == 2 and game[0] == game[1] and (w[0] != 0.5 or w[1] != 0.5):
        msgs.append(("half", f"{kind}.predict_win of two identical teams = {w} (must be exactly 0.5 each)"))
    return msgs


def eval_case(kind, cfg, game, mode):
    """mode: 'basic' | 'full' (all n!) | 'trans' (transpositions); full/trans also run increments and within-team perms."""
    model = cfg.make(kind)
    try:
        with core.watchdog():
            w = win(model, game)
            msgs = basic(kind, cfg, game, w)
            rel = 0
            al = lib.ratings_aliased(model, game)
            if al is not None and not msgs:
                w2 = model.predict_win(al)
                rel += 1
                msgs += [(k + "-alias", m + " [identical teams passed as one list object]") for k, m in basic(kind, cfg, game, w2)]
                if not msgs and any(abs(a - c) > S for a, c in zip(w, w2)):
                    msgs.append(("alias", f"{kind}.predict_win differs when identical teams are one list object in several slots: {w2} vs {w}"))
            if mode == "basic" or msgs:
                return msgs, rel
            n = len(game)
            for p in team_perms(n, mode == "full"):
                g2 = [game[p[i]] for i in range(n)]
                w2 = win(model, g2)
                if g2 != game:
                    rel += 1
                for i in range(n):
                    if abs(w2[i] - w[p[i]]) > S:
                        msgs.append(("perm", f"{kind}.predict_win not equivariant: teams {game} -> {w}; permuted by {p} -> {w2}"))
                        break
            for ti, T in enumerate(game):
                if len(T) > 1:
                    g2 = [list(t) for t in game]
                    g2[ti] = list(reversed(T))
                    w2 = win(model, g2)
                    rel += 1
                    if any(abs(a - c) > S for a, c in zip(w, w2)):
                        msgs.append(("playerperm", f"{kind}.predict_win changes when players of team {ti} are reordered: {w} vs {w2}"))
                for pj in range(len(T)):
                    for inc in INCS:
                        g2 = [list(t) for t in game]
                        m0, s0 = g2[ti][pj]
                        g2[ti][pj] = (m0 + inc * cfg.beta, s0)
                        w2 = win(model, g2)
                        rel += 1
                        if w2[ti] < w[ti] - S:
                            msgs.append(("mono-own", f"{kind}.predict_win: raising mu of player [{ti}][{pj}] by {inc}*beta lowers its team's probability {w[ti]!r} -> {w2[ti]!r} (game {game})"))
                        for o in range(n):
                            if o != ti and w2[o] > w[o] + S:
                                msgs.append(("mono-other", f"{kind}.predict_win: raising mu of player [{ti}][{pj}] by {inc}*beta raises team {o}'s probability {w[o]!r} -> {w2[o]!r} (game {game})"))
    except Exception as e:
        return [("exc", f"{kind}.predict_win raised {type(e).__name__}: {e}")], 0
    return msgs, rel


def plan(ctx):
    """(space, cfg, mode)"""
    out = [(sp, K, "basic") for sp, K in pred.plan_spaces(ctx)]
    rel = [("G2", "K0", "full"), ("G3|V12", "K0", "full"), ("G3|VF", "K0", "full"), ("G4|VF", "K0", "full"), ("G4|V6", "K0", "full"), ("G5|V4", "K0", "trans"), ("GP", "K0", "trans")]
    for K in spaces.PREDK[1:]:
        rel += [("G3|V12", K, "full")]
    if ctx.thorough:
        rel += [("G2", K, "full") for K in spaces.PREDK[1:]]
        rel += [("G3", "K0", "full"), ("G4", "K0", "full"), ("G5", "K0", "trans"), ("G6", "K0", "trans")]
    return out + rel


PARTS = dict(pred.PARTS, **{"G3|VF": 1, "G4|VF": 4, "G3|V12": 4, "G4|V6": 8, "G5|V4": 6})


def units(ctx):
    us = []
    for sp, K, mode in plan(ctx):
        parts = PARTS[sp] * (4 if mode != "basic" else 1)
        for k in range(parts):
            us.append((sp, K, mode, k, parts))
    return us


def run_unit(unit, ctx):
    sp, K, mode, k, parts = unit
    cfg = spaces.config(K)
    acc = core.Acc()
    for game in spaces.sharded(spaces.pred_games(sp, cfg), k, parts):
        for kind in spaces.KINDS:
            msgs, rel = eval_case(kind, cfg, game, mode)
            acc.evals += 1 + rel
            acc.nontrivial += rel if mode != "basic" else (1 if any(T != game[0] for T in game) else 0)
            for what, msg in msgs[:3]:
                acc.violation(PID, f"{kind}:{what}:n{min(len(game), 3)}", msg, pred.case(cfg, game, kind, mode=mode))
    acc.sample(pred.case(cfg, game, mode=mode))
    return acc


def replay(case):
    cfg, game = pred.uncase(case)
    msgs, _ = eval_case(case["kind"], cfg, game, case["mode"])
    return [m for _, m in msgs]


def main(ctx, t0):
    acc = core.run_units(units(ctx), run_unit, ctx)
    return core.finish(PID, ctx, LEVEL, acc, RULE, {"exhaustive": True, "plan": [f"{a}/{b}/{c}" for a, b, c in plan(ctx)]}, ASSUMPTIONS, t0)


def replay_unit(unit, ctx):
    return run_unit(unit, ctx)
