"""C07 - no rating inflation: the precision-weighted mu change sums to zero over a game.  E1, invariant."""
import math
import sys

from vf import core, lib, spaces

PID = "C07"
LEVEL = "exploration"
EPS = sys.float_info.epsilon
RULE = ("every game of S2, P2, P3, T3, T4 under K0 and of S2, T3 under K1-K4, K6-K8 [thorough: + T5, T6|V2, D7, D8, 8x8 players] x every weak "
        "order incl. all multi-way ties x 5 classes; oracle: |sum_i dmu_i/var_i| <= 1e-9*max(sum_i |dmu_i/var_i|, n/(sqrt2 beta)) + "
        "rounding bound + (Thurstone-Mosteller) 2*kappa/c_iq^2 per tied pair that is actually paired; equal-variance corollary: "
        "plain sum of mu changes is zero on the sub-space where all teams share a variance; non-trivial = game in which some "
        "mu actually changed")
ASSUMPTIONS = ["explicit rounding bound sum 4*eps*max(|mu|,|mu'|)/var_team for the measured differences", "values between alphabet points not covered"]


def eval_case(kind, cfg, g, ranks):
    model = cfg.make(kind)
    try:
        with core.watchdog():
            out = lib.rate(model, g, ranks=list(ranks))
    except Exception as e:
        return [f"rate raised {type(e).__name__}: {e}"], 0
    b, tau, kap = cfg.beta, cfg.tau, cfg.kappa
    n = len(g)
    var = [sum(s * s + tau * tau for _, s in T) for T in g]
    tot = sc = rnd = 0.0
    plain = plain_sc = plain_rnd = 0.0
    moved = 0
    for i in range(n):
        dm = math.fsum(out[i][j][0] - g[i][j][0] for j in range(len(g[i])))
        if dm != 0:
            moved = 1
        tot += dm / var[i]
        sc += abs(dm / var[i])
        r_ = sum(4 * EPS * max(abs(out[i][j][0]), abs(g[i][j][0])) for j in range(len(g[i])))
        rnd += r_ / var[i]
        plain += dm
        plain_sc += abs(dm)
        plain_rnd += r_
    allow = 0.0
    if kind in spaces.TM:
        part = kind == "TMP"
        order = sorted(range(n), key=lambda i: (ranks[i], i))
        for a in range(n):
            for c2 in range(a + 1, n):
                if ranks[a] == ranks[c2]:
                    if part and abs(order.index(a) - order.index(c2)) != 1:
                        continue
                    c = math.sqrt(var[a] + var[c2] + 2 * b * b) * (2 if part else 1)
                    allow += 2 * kap / (c * c)
    msgs = []
    bound = 1e-9 * max(sc, n / (math.sqrt(2) * b)) + rnd + allow * (1 + 1e-9)
    if not abs(tot) <= bound:
        msgs.append(f"{kind} {cfg.name}: sum over teams of (team mu change)/(team variance) = {tot!r}, terms total {sc!r}, allowed {bound!r}; game {g} ranks {list(ranks)}")
    if max(var) - min(var) <= 1e-12 * max(var):
        v = var[0]
        pb = 1e-9 * max(plain_sc, n * v / (math.sqrt(2) * b)) + plain_rnd + allow * v * (1 + 1e-9)
        if not abs(plain) <= pb:
            msgs.append(f"{kind} {cfg.name}: all teams have equal variance but the mu changes sum to {plain!r} (terms total {plain_sc!r}, allowed {pb!r}); game {g} ranks {list(ranks)}")
    return msgs, moved


def plan(ctx):
    out = [(sp, "K0") for sp in ("S2", "S2F", "P2", "P3", "T3", "T4", "T5|V2", "D7b1", "D8b1", "PK")] + [("S2F", "K1")]
    for K in ("K1", "K2", "K3", "K4", "K6", "K7", "K8"):
        out += [("S2", K), ("T3", K)]
    out += [("S2", "KG1"), ("T3|V6", "KG1"), ("P3", "KG1"), ("P2z", "K0"), ("P2z", "K4")]  # gamma = 0 for some teams only: the mean steps must still cancel
    if ctx.thorough:
        out += [("T5", "K0"), ("T6|V2", "K0"), ("D7", "K0"), ("D8", "K0"), ("D8x8", "K0")]
        for K in ("K1", "K2", "K3", "K4", "K6", "K7", "K8"):
            out += [("P2", K), ("P3", K), ("T4", K)]
    return out


PARTS = {"S2F": 2, "P2z": 2, "T3|V6": 2, "PK": 2, "T6|V2": 48, "T5|V2": 4, "D7b1": 4, "D8b1": 8, "S2": 4, "P2": 6, "P3": 8, "T3": 8, "T4": 24, "T5": 64, "T6": 256, "D7": 24, "D8": 64, "D8x8": 64}


def units(ctx):
    return [(kind, sp, K, k, PARTS[sp]) for kind in spaces.KINDS for (sp, K) in plan(ctx) for k in range(PARTS[sp])]


def run_unit(unit, ctx):
    kind, sp, K, k, parts = unit
    cfg = spaces.config(K)
    acc = core.Acc()
    for g in spaces.sharded(spaces.value_games(sp, kind, cfg), k, parts):
        for ranks in spaces.outcomes_for(len(g)):
            acc.evals += 1
            msgs, moved = eval_case(kind, cfg, g, ranks)
            acc.nontrivial += moved
            ties = len(ranks) - len(set(ranks))
            for m in msgs[:1]:
                acc.violation(PID, f"{kind}:{'tie3+' if max(list(ranks).count(x) for x in ranks) >= 3 else ('tie' if ties else 'strict')}", m,
                              lib.case_game(kind, cfg, g, ranks=list(ranks)))
    acc.sample(lib.case_game(kind, cfg, g, ranks=list(ranks)))
    return acc


def replay(case):
    kind, cfg, g = lib.uncase_game(case)
    return eval_case(kind, cfg, g, tuple(case["ranks"]))[0]


def main(ctx, t0):
    acc = core.run_units(units(ctx), run_unit, ctx)
    return core.finish(PID, ctx, LEVEL, acc, RULE, {"exhaustive": True, "plan": [f"{a}/{b}" for a, b in plan(ctx)]}, ASSUMPTIONS, t0)


def replay_unit(unit, ctx):
    return run_unit(unit, ctx)
