"""C17 - V, W, V~, W~ and the normal CDF: accurate and in range.  E4: exhaustive grid sweep against
40-digit mpmath (DESIGN §3-E4, §6 C17)."""
import math
import sys

from vf import core, ref, spaces

PID = "C17"
LEVEL = "exploration"
EPS = sys.float_info.epsilon
FLOOR = 2.3e-308  # I5 representability floor
RULE = ("full product X x T: X = uniform grid on [-40,40] (step 1/8 quick, 1/64 thorough, phase set by the seed) "
        "plus, for each t, the +-8-ulp neighbourhoods and a +-0.5 window (step 1e-3) around every branch threshold "
        "(Phi(x-t)=eps, b=1e-5, b=eps, x=0); T = 10 per decade on [1e-8,1e-2] plus kappa/c values the models use; "
        "plus the far field |x| in {40.5 .. 1.8e308} (20 magnitudes up to the largest finite float, both signs) x T against closed-form bounds; phi_major on [-37.5,38] step 1/40; every point compared with 40-digit evaluations of the definitions; "
        "non-trivial = point where at least one of the four functions is on a non-degenerate branch "
        "(value not exactly 0/1 and reference differs from 0)")
ASSUMPTIONS = [
    "mpmath erfc/exp/sqrt at 40 digits are the mathematical definitions (cross-checked against a 60-digit "
    "decimal continued-fraction evaluation of Phi at 64 points in this run)",
    "reals between grid points are not covered; ulp neighbourhoods cover the places the functions are discontinuous",
    "I8: 'rounding of order 1e-14/t' read as <= 1e-13/t; I5: absolute errors below 2.3e-308 pass",
]


def common():
    import openskill.models.weng_lin.common as C

    return C


def T_values():
    T = [10 ** (-8 + i / 10) for i in range(61)]
    for K in ("K0", "K1", "K2", "K9", "K10"):
        cfg = spaces.config(K)
        for kind in ("TMF", "TMP"):
            for (sa, sb) in ((1e-4, 1e-4), (2, 2), (10, 10), (1e-4, 10)):
                T.append(cfg.kappa / spaces.c_pair(kind, cfg, 1, sa, 1, sb))
    T = sorted(set(t for t in T if 1e-8 <= t <= 1e-2))
    return T


def exact(x, t):
    M = ref.mp_ctx()
    mp = M.mp
    x = mp.mpf(x)
    t = mp.mpf(t)
    mass = M.Phi(x - t)
    Vv = M.phi(x - t) / mass
    Ww = Vv * (Vv + x - t)
    xx = abs(x)
    b = M.Phi(t - xx) - M.Phi(-t - xx)
    a = M.phi(-t - xx) - M.phi(t - xx)
    Vt = (-a if x < 0 else a) / b
    Wt = ((t - xx) * M.phi(t - xx) + (t + xx) * M.phi(-t - xx)) / b + Vt * Vt
    return mass, Vv, Ww, Vt, Wt, b


def ulps(x, k):
    out = [x]
    a = bb = x
    for _ in range(k):
        a = math.nextafter(a, math.inf)
        bb = math.nextafter(bb, -math.inf)
        out += [a, bb]
    return out


def thresholds(t):
    M = ref.mp_ctx()
    mp = M.mp
    z_eps = float(mp.sqrt(2) * mp.erfinv(2 * mp.mpf(EPS) - 1))
    thr = [t + z_eps, -(t + z_eps)]
    tt = mp.mpf(t)

    def solve_b(target):
        f = lambda x: M.Phi(tt - x) - M.Phi(-tt - x) - target
        if f(mp.mpf(0)) < 0:
            return None
        lo, hi = mp.mpf(0), mp.mpf(45)
        for _ in range(160):
            mid = (lo + hi) / 2
            if f(mid) > 0:
                lo = mid
            else:
                hi = mid
        return float(lo)

    for target in (1e-5, EPS):
        r = solve_b(target)
        if r is not None:
            thr += [r, -r]
    thr.append(0.0)
    return thr


def xs_for(t, step, phase):
    X = []
    n = int(round(80 / step))
    for i in range(n + 1):
        x = -40 + (i + phase) * step
        if x <= 40:
            X.append(x)
    for c in thresholds(t):
        X += ulps(c, 8)
        X += [c + (i - 500) * 1e-3 for i in range(1001)]
    return [x for x in X if -40 <= x <= 40]


def eval_point(x, t):
    """-> (msgs, nontrivial, stats)"""
    C = common()
    msgs = []
    stats = {}
    try:
        gv, gw, gvt, gwt = C.v(x, t), C.w(x, t), C.vt(x, t), C.wt(x, t)
        # the exported functions are functions: the same arguments again, immediately and after the other three, give the same bits
        # (a last-call memo whose key and value get out of step returns another point's value for one of the two calls)
        again = (C.v(x, t), C.v(x, t), C.w(x, t), C.w(x, t), C.vt(x, t), C.vt(x, t), C.wt(x, t), C.wt(x, t))
    except Exception as e:
        return [f"{type(e).__name__} at x={x!r} t={t!r}: {e}"], False, stats
    for name, first, (a1, a2) in (("v", gv, again[0:2]), ("w", gw, again[2:4]), ("vt", gvt, again[4:6]), ("wt", gwt, again[6:8])):
        if not (core.bits(a1) == core.bits(first) and core.bits(a2) == core.bits(first)):
            msgs.append(f"{name}({x!r},{t!r}) = {first!r}, but {a1!r} and {a2!r} when called again with the same arguments")
    if msgs:
        return msgs, True, stats
    mass, Vv, Ww, Vt, Wt, b = exact(x, t)
    for name, val in (("v", gv), ("w", gw), ("vt", gvt), ("wt", gwt)):
        if not math.isfinite(val):
            msgs.append(f"{name}({x!r},{t!r}) = {val!r} is not finite")
    if msgs:
        return msgs, True, stats
    slack = 1e-13 / t
    if gv < 0:
        msgs.append(f"v({x!r},{t!r}) = {gv!r} < 0")
    if not (-slack <= gw <= 1 + slack):
        msgs.append(f"w({x!r},{t!r}) = {gw!r} outside [0,1] (slack {slack:.3g})")
    if not (-slack <= gwt <= 1 + slack):
        msgs.append(f"wt({x!r},{t!r}) = {gwt!r} outside [0,1] (slack {slack:.3g})")
    ev = abs(gv - Vv)
    ew = abs(gw - Ww)
    if mass >= EPS * (1 + 1e-9):
        lim, branch = 1e-6, "main"
    else:
        lim, branch = 0.02, "asymptotic"
    rv = float(ev / abs(Vv)) if ev > FLOOR else 0.0
    rw = float(ew / abs(Ww)) if ew > FLOOR else 0.0
    stats[f"v_{branch}_rel"] = rv
    stats[f"w_{branch}_rel"] = rw
    if rv > lim:
        msgs.append(f"v({x!r},{t!r}) = {gv!r}, exact V = {float(Vv)!r}: relative error {rv:.3g} > {lim} ({branch} branch, mass {float(mass):.3g})")
    if rw > lim:
        msgs.append(f"w({x!r},{t!r}) = {gw!r}, exact W = {float(Ww)!r}: relative error {rw:.3g} > {lim} ({branch} branch, mass {float(mass):.3g})")
    evt = float(abs(gvt - Vt))
    ewt = float(abs(gwt - Wt))
    stats["vt_over_2t"] = evt / (2 * t)
    stats["wt_over_env"] = ewt / (20 * t + 1e-13 / t)
    if evt > 2 * t:
        msgs.append(f"vt({x!r},{t!r}) = {gvt!r}, exact V~ = {float(Vt)!r}: |error| {evt:.3g} > 2t = {2*t:.3g}")
    if ewt > 20 * t + 1e-13 / t:
        msgs.append(f"wt({x!r},{t!r}) = {gwt!r}, exact W~ = {float(Wt)!r}: |error| {ewt:.3g} > 20t+1e-13/t = {20*t+1e-13/t:.3g}")
    nontrivial = (gw not in (0, 1)) or (gwt not in (0.0, 1.0)) or gv != 0
    return msgs, nontrivial, stats


X_FAR = [40.5, 41.0, 50.0, 100.0, 1e3, 1e5, 1e8, 1e10, 1e16, 1e50, 1e100, 1e153, 1.3e154, 1.35e154, 1.4e154, 1e155, 1e200, 1e300,
         8.98846567431158e307, 1.7976931348623157e308]


def eval_far(x, t):
    """|x| > 40 up to the largest finite float ("every finite x"): the exact values are known in closed form there to far better than
    the stated envelopes.  With u = |x| and the standard normal restricted to [u-t, u+t] (density ~ exp(-u s) on s in [-t, t] up to a
    factor exp(-s^2/2) = 1 - O(t^2)): V~ = -sgn(x) E, E = u + 1/u - t coth(u t) (relative error O(t^2)); W~ = 1 - Var in [1 - t^2, 1].
    z = x - t >= 40: 0 < V < phi(40) < 1e-347 and 0 < W < 1e-300 (below the representability floor I5).
    z <= -40: V in (-z, -z + 1/|z|), W in (1 - 1/z^2, 1) (asymptotic branch: 2 percent)."""
    C = common()
    msgs = []
    try:
        gv, gw, gvt, gwt = C.v(x, t), C.w(x, t), C.vt(x, t), C.wt(x, t)
    except Exception as e:
        return [f"{type(e).__name__} at x={x!r} t={t!r}: {e}"]
    for name, val in (("v", gv), ("w", gw), ("vt", gvt), ("wt", gwt)):
        if not math.isfinite(val):
            msgs.append(f"{name}({x!r},{t!r}) = {val!r} is not finite")
    if msgs:
        return msgs
    mp = ref.mp_ctx().mp
    X, T = mp.mpf(x), mp.mpf(t)
    u = abs(X)
    ut = u * T
    E = u + 1 / u - T * (mp.coth(ut) if ut < 200 else 1)
    Vt = -E if x > 0 else E
    evt = float(abs(mp.mpf(gvt) - Vt))
    if evt > 2 * t * (1 + 1e-3):
        msgs.append(f"vt({x!r},{t!r}) = {gvt!r}, exact V~ = {float(Vt)!r}: |error| {evt:.3g} > 2t = {2*t:.3g}")
    if abs(gwt - 1) > 20 * t + 1e-13 / t:
        msgs.append(f"wt({x!r},{t!r}) = {gwt!r}, exact W~ in [1-t^2, 1]: |error| > 20t+1e-13/t = {20*t+1e-13/t:.3g}")
    z = X - T
    if z > 0:
        if not (0 <= gv <= FLOOR):
            msgs.append(f"v({x!r},{t!r}) = {gv!r}, exact V < 1e-347")
        if not (-FLOOR <= gw <= 1e-300):
            msgs.append(f"w({x!r},{t!r}) = {gw!r}, exact W < 1e-300")
    else:
        if abs(mp.mpf(gv) + z) > mp.mpf("0.02") * abs(z) + 1 / abs(z):
            msgs.append(f"v({x!r},{t!r}) = {gv!r}, exact V = {float(-z)!r} (+ at most 1/|x-t|): relative error > 0.02 (asymptotic branch)")
        if abs(gw - 1) > 0.02 + float(1 / (z * z)):
            msgs.append(f"w({x!r},{t!r}) = {gw!r}, exact W in (1 - 1/(x-t)^2, 1): error > 0.02 (asymptotic branch)")
    return msgs


def eval_cdf(x):
    C = common()
    M = ref.mp_ctx()
    try:
        g = C.phi_major(x)
    except Exception as e:
        return [f"phi_major({x!r}) raised {type(e).__name__}: {e}"], 0.0
    e = M.Phi(M.mp.mpf(x))
    if not math.isfinite(g):
        return [f"phi_major({x!r}) = {g!r}"], 0.0
    err = abs(g - e)
    rel = float(err / e) if err > FLOOR else 0.0
    if rel > 1e-12:
        return [f"phi_major({x!r}) = {g!r}, exact {float(e)!r}: relative error {rel:.3g} > 1e-12"], rel
    return [], rel


def grid(ctx):
    step = 1 / 64 if ctx.thorough else 1 / 8
    nph = 16
    phase = (ctx.seed % nph) / nph
    return step, phase


def units(ctx):
    step, phase = grid(ctx)
    us = [("fn", t, step, phase, k, 2 if not ctx.thorough else 6) for t in T_values() for k in range(2 if not ctx.thorough else 6)]
    us += [("cdf", phase, k, 4) for k in range(4)]
    us.append(("far",))
    us.append(("selfcheck",))
    return us


def phi_decimal(x, prec=60):
    """Phi(x) for x<0 by a continued fraction for the Mills ratio / for small |x| by the series; decimal, 60 digits."""
    from decimal import Decimal, getcontext

    getcontext().prec = prec
    X = Decimal(x)
    pi = Decimal("3.14159265358979323846264338327950288419716939937510582097494459230781640628620899")
    if abs(X) < 3:
        # Phi(x) = 1/2 + phi(x) * sum_{k>=0} x^(2k+1)/(1*3*...*(2k+1))
        term = X
        s = term
        k = 0
        while abs(term) > Decimal(10) ** (-prec):
            k += 1
            term = term * X * X / (2 * k + 1)
            s += term
        dens = (-(X * X) / 2).exp() / (2 * pi).sqrt()
        return Decimal("0.5") + dens * s
    y = abs(X)
    # Mills ratio R(y) = 1/(y + 1/(y + 2/(y + 3/(y + ...))))
    f = Decimal(0)
    for k in range(400, 0, -1):
        f = Decimal(k) / (y + f)
    R = 1 / (y + f)
    tail = (-(y * y) / 2).exp() / (2 * pi).sqrt() * R
    return tail if X < 0 else 1 - tail


def run_unit(unit, ctx):
    acc = core.Acc()
    if unit[0] == "selfcheck":
        M = ref.mp_ctx()
        worst = 0.0
        for i in range(64):
            x = -37.0 + i * (45.0 / 63)
            a = M.Phi(M.mp.mpf(x))
            d = phi_decimal(x)
            relerr = abs(float((a - M.mp.mpf(str(d))) / a))
            worst = max(worst, relerr)
        if worst > 1e-25:
            raise core.HarnessError(f"mpmath Phi disagrees with decimal continued fraction: {worst}")
        acc.mx("selfcheck_mp_vs_decimal_rel", worst)
        acc.add("selfcheck_points", 64)
        return acc
    if unit[0] == "far":
        for t in T_values():
            for x0 in X_FAR:
                for x in (x0, -x0):
                    acc.evals += 1
                    acc.nontrivial += 1
                    acc.add("far_points")
                    for m in eval_far(x, t):
                        acc.violation(PID, f"far:{m.split('(')[0]}:{'neg' if x < 0 else 'pos'}", m, {"fn": "far", "x": x.hex(), "t": t.hex()})
        acc.sample({"fn": "v,w,vt,wt far", "x": X_FAR[-1], "t": T_values()[0]})
        return acc
    if unit[0] == "cdf":
        _, phase, k, parts = unit
        xs = [-37.5 + (i + phase) / 40 for i in range(int(75.5 * 40) + 1)]
        xs += ulps(0.0, 4) + [-37.5, 38.0]
        for i, x in enumerate(xs):
            if i % parts != k or not (-37.5 <= x <= 38):
                continue
            acc.evals += 1
            msgs, rel = eval_cdf(x)
            acc.mx("cdf_rel", rel, x)
            acc.nontrivial += 1
            if msgs:
                acc.violation(PID, "phi_major:" + ("lower" if x < 0 else "upper"), msgs[0], {"fn": "cdf", "x": x.hex()})
        acc.sample({"fn": "phi_major", "x": xs[k]})
        return acc
    _, t, step, phase, k, parts = unit
    for i, x in enumerate(xs_for(t, step, phase)):
        if i % parts != k:
            continue
        acc.evals += 1
        msgs, nt, stats = eval_point(x, t)
        acc.nontrivial += 1 if nt else 0
        for name, val in stats.items():
            acc.mx(name, val, [x, t])
        for m in msgs:
            fn = m.split("(")[0]
            acc.violation(PID, f"{fn}:{'neg' if x < 0 else 'pos'}", m, {"fn": "pt", "x": x.hex(), "t": t.hex()})
    acc.sample({"fn": "v,w,vt,wt", "x": x, "t": t})
    return acc


def replay(case):
    if case["fn"] == "cdf":
        return eval_cdf(float.fromhex(case["x"]))[0]
    if case["fn"] == "far":
        return eval_far(float.fromhex(case["x"]), float.fromhex(case["t"]))
    return eval_point(float.fromhex(case["x"]), float.fromhex(case["t"]))[0]


def main(ctx, t0):
    acc = core.run_units(units(ctx), run_unit, ctx)
    step, phase = grid(ctx)
    extra = {"exhaustive": True, "grid_step": step, "grid_phase": phase, "t_values": len(T_values())}
    return core.finish(PID, ctx, LEVEL, acc, RULE, extra, ASSUMPTIONS, t0)


def replay_unit(unit, ctx):
    return run_unit(unit, ctx)
