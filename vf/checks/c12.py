"""C12 - predictions equal their documented pairwise-Gaussian closed forms (1e-9 absolute), against an
independent 40-digit evaluation.  E1 + reference oracle."""
from vf import core, pred, ref, spaces

PID = "C12"
LEVEL = "exploration"
TOL = 1e-9
RULE = ("every value game of the prediction space G (2-team S2/P2 games, singleton products V28^3, V12^4, V6^5 [thorough: "
        "V4^6, V3^7, V3^8], multi-player P3, 8x8 and 2x16 deviation-bounded) under K0 and G2+G3 under K1, K9, K10; the "
        "three predictors of all five classes compared with the closed forms of the statement evaluated by mpmath at 40 "
        "digits (computed once per game); non-trivial = game whose teams are not all identical")
ASSUMPTIONS = ["mpmath erfc/erfinv at 40 digits are the mathematical Phi and Phi^-1", "values between alphabet points not covered"]


def reference(cfg, game):
    M = ref.mp_ctx()
    w = [float(x) for x in ref.predict_win(game, cfg.beta, M)]
    d = float(ref.predict_draw(game, cfg.beta, M))
    r = [float(x) for x in ref.predict_rank_probs(game, cfg.beta, M)]
    return w, d, r


def eval_case(cfg, game, kinds=spaces.KINDS):
    rw, rd, rr = reference(cfg, game)
    out = []
    for kind in kinds:
        model = cfg.make(kind)
        try:
            with core.watchdog():
                w, d, r = pred.predict_all(model, game)
        except Exception as e:
            out.append((kind, "exc", f"{kind}: predictor raised {type(e).__name__}: {e}"))
            continue
        if len(w) != len(game) or any(abs(a - b) > TOL for a, b in zip(w, rw)):
            out.append((kind, "win", f"{kind}.predict_win = {w}, closed form = {rw}"))
        if abs(d - rd) > TOL:
            out.append((kind, "draw", f"{kind}.predict_draw = {d!r}, closed form = {rd!r}"))
        if len(r) != len(game) or any(abs(p - b) > TOL for (_, p), b in zip(r, rr)):
            out.append((kind, "rank", f"{kind}.predict_rank probabilities = {[p for _, p in r]}, closed form = {rr}"))
        try:
            al = pred.predict_all_aliased(model, game)
        except Exception as e:
            out.append((kind, "exc", f"{kind}: predictor raised {type(e).__name__} when identical teams are one list object: {e}"))
            continue
        if al is not None:
            w2, d2, r2 = al
            if (len(w2) != len(game) or any(abs(a - b) > TOL for a, b in zip(w2, rw)) or abs(d2 - rd) > TOL
                    or len(r2) != len(game) or any(abs(p - b) > TOL for (_, p), b in zip(r2, rr))):
                out.append((kind, "alias", f"{kind}: with identical teams passed as one list object in several slots the predictions are "
                                           f"win {w2} draw {d2!r} rank {[p for _, p in r2]}; closed forms win {rw} draw {rd!r} rank {rr}"))
    return out


def run_unit(unit, ctx):
    sp, K, k, parts = unit
    cfg = spaces.config(K)
    acc = core.Acc()
    for game in spaces.sharded(spaces.pred_games(sp, cfg), k, parts):
        acc.evals += len(spaces.KINDS)
        if any(T != game[0] for T in game):
            acc.nontrivial += len(spaces.KINDS)
        for kind, what, msg in eval_case(cfg, game):
            acc.violation(PID, f"{kind}:{what}:n{'2' if len(game) == 2 else '>2'}", msg, pred.case(cfg, game, kind))
        acc.mx("teams", len(game))
    acc.sample(pred.case(cfg, game))
    return acc


def replay(case):
    cfg, game = pred.uncase(case)
    return [m for _, _, m in eval_case(cfg, game, [case["kind"]] if "kind" in case else spaces.KINDS)]


def main(ctx, t0):
    acc = core.run_units(pred.units(ctx), run_unit, ctx)
    return core.finish(PID, ctx, LEVEL, acc, RULE, {"exhaustive": True, "plan": [f"{s}/{K}" for s, K in pred.plan_spaces(ctx)]}, ASSUMPTIONS, t0)


def replay_unit(unit, ctx):
    return run_unit(unit, ctx)
