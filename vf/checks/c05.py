"""C05 - direction of learning: winning never costs mu, losing never earns it.  E1, invariant + metamorphic
between the outcomes of one game."""
import itertools
import math
import sys

from vf import core, lib, spaces

PID = "C05"
LEVEL = "exploration"
EPS = sys.float_info.epsilon
RULE = ("S2 (every regime of mismatch; win, draw and loss of the SAME game side by side), P2 (heterogeneous members: same "
        "direction, change proportional to sigma^2+tau^2), T3, T4 [thorough: T5] with every weak order computed side by side: "
        "sole-first never loses mu, sole-last never gains; 2 teams: loss <= draw <= win, prior between loss and win, a draw does "
        "not raise the stronger / lower the weaker team beyond the TM draw-margin term; every strict order x all C(n,2) "
        "exchanges with a better-placed team (PL and full pairing): never lowers mu; identical teams: mu ordered by place; "
        "configs K0 and K1-K4, K9, K10, and K5 (limit_sigma) on S2, P2, T3; non-trivial = clause instance whose two sides differ (posterior != prior, or the two "
        "outcomes give different posteriors)")
ASSUMPTIONS = ["tolerance R4 (1e-9 of scale) on every inequality", "values between alphabet points not covered"]


def R4(pm, dm, s):
    return 1e-9 * (abs(pm) + abs(dm) + s)


def run(model, g, r):
    return lib.rate(model, g, ranks=list(r))


def eval_two(kind, cfg, g):
    """2-team clauses on one value game."""
    model = cfg.make(kind)
    b, tau, kap = cfg.beta, cfg.tau, cfg.kappa
    msgs = []
    nt = 0
    win, draw, loss = run(model, g, [0, 1]), run(model, g, [0, 0]), run(model, g, [1, 0])
    var = [sum(s * s + tau * tau for _, s in T) for T in g]
    c = math.sqrt(var[0] + var[1] + 2 * b * b) * (2 if kind == "TMP" else 1)
    tm = [sum(m for m, _ in T) for T in g]
    for ti in (0, 1):
        W, D, L = (win, draw, loss) if ti == 0 else (loss, draw, win)
        for j, (pm, ps) in enumerate(g[ti]):
            sinf = math.sqrt(ps * ps + tau * tau)
            w_, d_, l_ = W[ti][j][0], D[ti][j][0], L[ti][j][0]
            tol = R4(pm, max(abs(w_ - pm), abs(l_ - pm)), sinf)
            nt += 1 if w_ != l_ else 0
            if not (l_ <= d_ + tol and d_ <= w_ + tol):
                msgs.append(("loss<=draw<=win", f"{kind} {cfg.name}: player [{ti}][{j}] of {g}: loss {l_!r} draw {d_!r} win {w_!r}"))
            if not (l_ <= pm + tol and pm <= w_ + tol):
                msgs.append(("prior-between", f"{kind} {cfg.name}: player [{ti}][{j}] of {g}: loss {l_!r} prior {pm!r} win {w_!r}"))
            share = (ps * ps + tau * tau) / var[ti]
            slack = share * var[ti] * kap / (c * c) * (1 + 1e-9) if kind in spaces.TM else 0.0
            if tm[ti] > tm[1 - ti] and d_ > pm + tol + slack:
                msgs.append(("draw-raises-stronger", f"{kind} {cfg.name}: a draw raises the stronger team's player [{ti}][{j}] by {d_ - pm!r} (allowed {slack!r}) in {g}"))
            if tm[ti] < tm[1 - ti] and d_ < pm - tol - slack:
                msgs.append(("draw-lowers-weaker", f"{kind} {cfg.name}: a draw lowers the weaker team's player [{ti}][{j}] by {pm - d_!r} (allowed {slack!r}) in {g}"))
    for o, r in ((win, [0, 1]), (draw, [0, 0]), (loss, [1, 0])):
        msgs += shares(kind, cfg, g, r, o)
        msgs += first_last(kind, cfg, g, r, o)
    return msgs, nt


def shares(kind, cfg, g, r, o):
    """all members of a team move in one direction, each proportional to its own inflated variance"""
    tau = cfg.tau
    msgs = []
    for ti, T in enumerate(g):
        if len(T) < 2:
            continue
        dms = [o[ti][j][0] - T[j][0] for j in range(len(T))]
        vs = [T[j][1] ** 2 + tau * tau for j in range(len(T))]
        rnd = sum(4 * EPS * max(abs(o[ti][j][0]), abs(T[j][0])) for j in range(len(T)))
        for a in range(len(T)):
            for c in range(a + 1, len(T)):
                lhs, rhs = dms[a] * vs[c], dms[c] * vs[a]
                if abs(lhs - rhs) > 1e-9 * max(abs(lhs), abs(rhs)) + rnd * max(vs[a], vs[c]):
                    msgs.append(("proportional", f"{kind} {cfg.name}: team {ti} of {g} ranks {list(r)}: mu changes {dms[a]!r}, {dms[c]!r} are not in the ratio of the inflated variances {vs[a]!r}, {vs[c]!r}"))
                if dms[a] * dms[c] < 0 and min(abs(dms[a]), abs(dms[c])) > rnd:
                    msgs.append(("same-direction", f"{kind} {cfg.name}: members {a},{c} of team {ti} of {g} ranks {list(r)} move in opposite directions: {dms[a]!r}, {dms[c]!r}"))
    return msgs


def first_last(kind, cfg, g, r, o):
    msgs = []
    tau = cfg.tau
    lo, hi = min(r), max(r)
    for i, T in enumerate(g):
        sole_first = r[i] == lo and list(r).count(lo) == 1
        sole_last = r[i] == hi and list(r).count(hi) == 1
        if not (sole_first or sole_last):
            continue
        for j, (pm, ps) in enumerate(T):
            dm = o[i][j][0] - pm
            tol = R4(pm, dm, math.sqrt(ps * ps + tau * tau))
            if sole_first and dm < -tol:
                msgs.append(("sole-first-decreased", f"{kind} {cfg.name}: team {i} finishes alone in first place (ranks {list(r)}) but player [{i}][{j}] loses mu: {dm!r}; game {g}"))
            if sole_last and dm > tol:
                msgs.append(("sole-last-increased", f"{kind} {cfg.name}: team {i} finishes alone in last place (ranks {list(r)}) but player [{i}][{j}] gains mu: {dm!r}; game {g}"))
    return msgs


def eval_multi(kind, cfg, g):
    """n-team clauses: all weak orders side by side."""
    model = cfg.make(kind)
    n = len(g)
    tau = cfg.tau
    msgs = []
    nt = 0
    res = {}
    for r in spaces.weak_orders(n):
        o = run(model, g, r)
        res[r] = o
        msgs += first_last(kind, cfg, g, r, o)
        msgs += shares(kind, cfg, g, r, o)
    strict = [r for r in spaces.weak_orders(n) if len(set(r)) == n]
    if kind in spaces.FULL:
        for r in strict:
            for i in range(n):
                for j in range(n):
                    if r[j] < r[i]:
                        r2 = list(r)
                        r2[i], r2[j] = r2[j], r2[i]
                        for p, (pm, ps) in enumerate(g[i]):
                            a = res[r][i][p][0]
                            bb = res[tuple(r2)][i][p][0]
                            tol = R4(pm, max(abs(a - pm), abs(bb - pm)), math.sqrt(ps * ps + tau * tau))
                            nt += 1 if a != bb else 0
                            if bb < a - tol:
                                msgs.append(("swap-up-lowers", f"{kind} {cfg.name}: team {i} exchanging places with better-placed team {j} (ranks {list(r)} -> {r2}) lowers its mu {a!r} -> {bb!r}; game {g}"))
    # identical teams ordered by finishing place
    for r in strict:
        o = res[r]
        for a in range(n):
            for c in range(n):
                if a != c and g[a] == g[c] and r[a] < r[c]:
                    all_identical = all(T == g[0] for T in g)
                    if kind not in spaces.FULL and not all_identical:
                        continue
                    for p, (pm, ps) in enumerate(g[a]):
                        ma, mc = o[a][p][0], o[c][p][0]
                        tol = R4(pm, max(abs(ma - pm), abs(mc - pm)), math.sqrt(ps * ps + tau * tau))
                        nt += 1
                        if mc > ma + tol:
                            msgs.append(("identical-order", f"{kind} {cfg.name}: identical teams {a} (place {r[a]}) and {c} (place {r[c]}) end with mu {ma!r} < {mc!r}; game {g} ranks {list(r)}"))
                        if all_identical and kind in spaces.FULL and r[a] == 0 and r[c] == n - 1 and not ma > mc:
                            msgs.append(("identical-strict", f"{kind} {cfg.name}: identical teams, first place ends with mu {ma!r}, last place with {mc!r} (must be strictly ordered); ranks {list(r)}"))
    return msgs, nt


def plan(ctx):
    out = [("S2", "K0"), ("S2F", "K0"), ("S2F", "K1"), ("P2", "K0"), ("T3", "K0"), ("T4", "K0"), ("P3", "K0")]
    for K in ("K1", "K2", "K3", "K4", "K9", "K10"):
        out += [("S2", K), ("T3|V6", K)]
    out += [("S2", "K5"), ("P2", "K5"), ("T3|V6", "K5")]  # limit_sigma in force: the clamp must not touch mu
    if ctx.thorough:
        out += [("T5", "K0")]
        for K in ("K1", "K2", "K3", "K4", "K9", "K10"):
            out += [("P2", K), ("T3", K), ("T4|V4", K)]
    return out


PARTS = {"S2F": 2, "S2": 4, "P2": 8, "P3": 8, "T3": 12, "T4": 48, "T3|V6": 2, "T5": 128, "T4|V4": 8}


def units(ctx):
    return [(kind, sp, K, k, PARTS[sp]) for kind in spaces.KINDS for (sp, K) in plan(ctx) for k in range(PARTS[sp])]


def run_unit(unit, ctx):
    kind, sp, K, k, parts = unit
    cfg = spaces.config(K)
    acc = core.Acc()
    for g in spaces.sharded(spaces.value_games(sp, kind, cfg), k, parts):
        try:
            with core.watchdog(120):
                msgs, nt = eval_two(kind, cfg, g) if len(g) == 2 else eval_multi(kind, cfg, g)
        except Exception as e:
            msgs, nt = [("exc", f"{kind}: {type(e).__name__}: {e}")], 0
        acc.evals += len(spaces.weak_orders(len(g)))
        acc.nontrivial += min(nt, len(spaces.weak_orders(len(g))))
        for what, m in msgs[:3]:
            acc.violation(PID, f"{kind}:{what}", m, lib.case_game(kind, cfg, g))
    acc.sample(lib.case_game(kind, cfg, g, outcomes="all weak orders side by side"))
    return acc


def replay(case):
    kind, cfg, g = lib.uncase_game(case)
    msgs, _ = eval_two(kind, cfg, g) if len(g) == 2 else eval_multi(kind, cfg, g)
    return [m for _, m in msgs]


def main(ctx, t0):
    acc = core.run_units(units(ctx), run_unit, ctx)
    return core.finish(PID, ctx, LEVEL, acc, RULE, {"exhaustive": True, "plan": [f"{a}/{b}" for a, b in plan(ctx)]}, ASSUMPTIONS, t0)


def replay_unit(unit, ctx):
    return run_unit(unit, ctx)
