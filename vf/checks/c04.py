"""C04 - rate() is equivariant under reordering of teams and of players within a team.  E1, metamorphic."""
import itertools

from vf import core, lib, ref, spaces

PID = "C04"
LEVEL = "exploration"
RULE = ("for every game x every weak order of the listed spaces: all n! team permutations (T3, T4|V4; thorough: T4, T5|V2), all "
        "adjacent transpositions (T4; thorough: T5|V3, T6|V2, D7, D8 - they generate the symmetric group and the spaces are "
        "closed under permutation), every permutation of the players of each team (P2, P3; teams of 5-8 players in PK: a generating set); ranks/scores permuted alongside; "
        "under the two partial-pairing classes only permutations that keep mutually tied teams in their relative order (every "
        "admissible one is still enumerated); posterior of every player must agree within 1e-9 of scale (Thurstone-Mosteller: "
        "plus the width of that player's reference interval); non-trivial = permuted presentation differs from the original "
        "as a list of (team values, rank)")
ASSUMPTIONS = ["tolerance R4; for Thurstone-Mosteller two presentations may differ by the C17 envelope of the tie terms (DESIGN §8 I2)",
               "permutations of more than 5 teams only through the generated group action on the enumerated space"]
REL = 1e-9


def admissible(kind, ranks, p):
    """p: new listing, new[i] = old[p[i]].  Partial pairing: tied teams keep their relative order."""
    if kind in spaces.FULL:
        return True
    pos = {old: new for new, old in enumerate(p)}
    n = len(ranks)
    for a in range(n):
        for b in range(a + 1, n):
            if ranks[a] == ranks[b] and pos[a] > pos[b]:
                return False
    return True


def adjacent(n):
    out = []
    for i in range(n - 1):
        p = list(range(n))
        p[i], p[i + 1] = p[i + 1], p[i]
        out.append(tuple(p))
    return out


def tolerances(kind, cfg, game, ranks, base):
    """per player (tol_mu, tol_sigma)"""
    out = []
    if kind in spaces.TM:
        iv = ref.rate(kind, game, list(ranks), cfg.beta, cfg.kappa, cfg.tau, cfg.gamma_fn(), cfg.limit_sigma)
        for i, T in enumerate(game):
            out.append([ref.width(iv[i][j]) for j in range(len(T))])
        return out
    for i, T in enumerate(game):
        row = []
        for j, (m, s) in enumerate(T):
            pm, ps = base[i][j]
            row.append((REL * (abs(m) + abs(pm - m) + s + cfg.tau), REL * ps))
        out.append(row)
    return out


def eval_case(kind, cfg, game, ranks, perms, player_perms=False, enc="ranks"):
    """-> (msgs, related presentations that differ)"""
    model = cfg.make(kind)
    n = len(game)
    msgs = []
    rel = 0

    def call(g, r):
        if enc == "scores":
            return lib.rate(model, g, scores=[-x for x in r])
        return lib.rate(model, g, ranks=list(r))

    try:
        with core.watchdog():
            base = call(game, ranks)
            tol = None
            for p in perms:
                if p == tuple(range(n)) or not admissible(kind, ranks, p):
                    continue
                g2 = [game[p[i]] for i in range(n)]
                r2 = [ranks[p[i]] for i in range(n)]
                if g2 == game and list(r2) == list(ranks):
                    continue
                rel += 1
                got = call(g2, r2)
                if tol is None:
                    tol = tolerances(kind, cfg, game, ranks, base)
                for i in range(n):
                    for j in range(len(g2[i])):
                        a = got[i][j]
                        b_ = base[p[i]][j]
                        tm_, ts_ = tol[p[i]][j]
                        if abs(a[0] - b_[0]) > tm_ or abs(a[1] - b_[1]) > ts_:
                            msgs.append(("teamperm", f"{kind} {cfg.name}: listing the teams in order {list(p)} gives player (team {p[i]}, slot {j}) the posterior {a}, "
                                                     f"the original listing gives {b_} (tol {tm_:.3g},{ts_:.3g}); game {game} ranks {list(ranks)}"))
                            break
                    else:
                        continue
                    break
            if player_perms:
                for ti, T in enumerate(game):
                    if len(T) < 2:
                        continue
                    # every permutation of the players for teams of <= 4, a generating set (adjacent swaps, reversal, rotation) above
                    qs = itertools.permutations(range(len(T))) if len(T) <= 4 else spaces.generator_perms(len(T))
                    for q in qs:
                        if q == tuple(range(len(T))):
                            continue
                        g2 = [list(t) for t in game]
                        g2[ti] = [T[q[j]] for j in range(len(T))]
                        if g2 == game:
                            continue
                        rel += 1
                        got = call(g2, ranks)
                        if tol is None:
                            tol = tolerances(kind, cfg, game, ranks, base)
                        bad = False
                        for i in range(n):
                            for j in range(len(g2[i])):
                                src = base[i][q[j]] if i == ti else base[i][j]
                                tm_, ts_ = tol[i][q[j]] if i == ti else tol[i][j]
                                a = got[i][j]
                                if abs(a[0] - src[0]) > tm_ or abs(a[1] - src[1]) > ts_:
                                    msgs.append(("playerperm", f"{kind} {cfg.name}: listing the players of team {ti} in order {list(q)} changes the posterior of player "
                                                               f"[{i}][{j}] to {a} from {src}; game {game} ranks {list(ranks)}"))
                                    bad = True
                                    break
                            if bad:
                                break
    except Exception as e:
        return [("exc", f"{kind}: rate raised {type(e).__name__}: {e}")], rel
    return msgs, rel


def plan(ctx):
    """(space, cfg, which perms, player perms)"""
    out = [("T3", "K0", "all", False), ("T4|V4", "K0", "all", False), ("T4", "K0", "adjacent", False),
           ("P2", "K0", "none", True), ("P3", "K0", "adjacent", True), ("T3|V6", "K5", "all", False), ("T3|V6", "K8", "all", False),
           ("T5|V2", "K0", "adjacent", False), ("D7b1", "K0", "adjacent", False), ("PK", "K0", "adjacent", True),
           ("P3", "K5", "none", True)]  # limit_sigma in force: the clamp must not depend on the player order
    if ctx.thorough:
        out += [("T4", "K0", "all", False), ("T5|V2", "K0", "all", False), ("T5|V3", "K0", "adjacent", False), ("T6|V2", "K0", "adjacent", False),
                ("D7", "K0", "adjacent", False), ("D8", "K0", "adjacent", False), ("T3", "K2", "all", False), ("T3", "K4", "all", False), ("T3", "K7", "all", False)]
    return out


PARTS = {"PK": 6, "D7b1": 8, "T3": 8, "T4|V4": 16, "T4": 32, "P2": 12, "P3": 8, "T3|V6": 2, "T5|V2": 8, "T5|V3": 24, "T6|V2": 48, "D7": 32, "D8": 96}


def units(ctx):
    us = []
    for kind in spaces.KINDS:
        for (sp, K, which, pp) in plan(ctx):
            parts = PARTS[sp] * (3 if which == "all" and sp in ("T4", "T5|V2") else 1)
            for k in range(parts):
                us.append((kind, sp, K, which, pp, k, parts))
    return us


def run_unit(unit, ctx):
    kind, sp, K, which, pp, k, parts = unit
    cfg = spaces.config(K)
    acc = core.Acc()
    for game in spaces.sharded(spaces.value_games(sp, kind, cfg), k, parts):
        n = len(game)
        perms = {"all": list(itertools.permutations(range(n))), "adjacent": adjacent(n), "none": []}[which]
        for ranks in spaces.outcomes_for(n):
            msgs, rel = eval_case(kind, cfg, game, ranks, perms, pp)
            acc.evals += 1 + rel
            acc.nontrivial += rel
            for what, m in msgs[:2]:
                acc.violation(PID, f"{kind}:{what}:{'tie' if len(set(ranks)) < n else 'strict'}", m,
                              lib.case_game(kind, cfg, game, ranks=list(ranks), which=which, pp=pp))
    acc.sample(lib.case_game(kind, cfg, game, ranks=list(ranks), permutations=which, player_permutations=pp))
    return acc


def replay(case):
    kind, cfg, game = lib.uncase_game(case)
    n = len(game)
    perms = {"all": list(itertools.permutations(range(n))), "adjacent": adjacent(n), "none": []}[case["which"]]
    msgs, _ = eval_case(kind, cfg, game, tuple(case["ranks"]), perms, case["pp"])
    return [m for _, m in msgs]


def main(ctx, t0):
    acc = core.run_units(units(ctx), run_unit, ctx)
    return core.finish(PID, ctx, LEVEL, acc, RULE, {"exhaustive": True, "plan": [f"{a}/{b}/{c}/players={d}" for a, b, c, d in plan(ctx)]}, ASSUMPTIONS, t0)


def replay_unit(unit, ctx):
    return run_unit(unit, ctx)
