"""C11 - predict_rank ranks agree with its probabilities and complement predict_draw.  E1, invariant."""
import math

from vf import core, lib, pred, spaces

PID = "C11"
LEVEL = "exploration"
S = 1e-12
RULE = ("every game of the prediction space G (2..5 teams quick, ..8 thorough; value products contain every pattern of exactly "
        "identical teams, i.e. exact probability ties) under K0 and G2+G3 under K1,K9,K10, plus 8-team games built from <=3 "
        "distinct values (tie patterns), all five classes; oracle: n pairs in input order, prob in [0,1], ranks ints in 1..n, "
        "p_a > p_b => rank_a < rank_b, p_a == p_b => rank_a == rank_b, arg-max has rank 1 (all on the returned floats); n>=3: "
        "sum(p) + predict_draw = 1 (1e-12); every G3/G4 game again as a near twin (second team = first team with one mu one ulp higher); non-trivial = game with >=2 distinct teams, or with an exact probability tie")
ASSUMPTIONS = ["order clauses are evaluated on the returned floats exactly (no tolerance)", "sum clause 1e-12*n absolute"]


def tie8(cfg):
    """8 teams from 2-3 distinct values in every arrangement class that matters: blocks and interleavings."""
    b = cfg.beta
    vals = [(6 * b, 2 * b), (8 * b, 1 * b), (0.0, 10 * b)]
    import itertools

    for pat in itertools.product(range(3), repeat=8):
        if pat[0] != 0 or sum(1 for i in range(1, 8) if pat[i] != pat[i - 1]) > 3:
            continue
        yield [[vals[p]] for p in pat]


def eval_case(kind, cfg, game):
    model = cfg.make(kind)
    n = len(game)
    try:
        with core.watchdog():
            r = model.predict_rank(lib.ratings(model, game))
            d = model.predict_draw(lib.ratings(model, game)) if n >= 3 else None
    except Exception as e:
        return [("exc", f"{kind}.predict_rank raised {type(e).__name__}: {e}")]
    if not isinstance(r, list) or len(r) != n or any(not (isinstance(x, tuple) and len(x) == 2) for x in r):
        return [("shape", f"{kind}.predict_rank returned {r!r} for {n} teams")]
    msgs = []
    ranks = [x[0] for x in r]
    probs = [x[1] for x in r]
    for i, (rk, p) in enumerate(r):
        if type(rk) is not int or not (1 <= rk <= n):
            msgs.append(("rank-range", f"{kind}.predict_rank rank[{i}] = {rk!r} is not an int in 1..{n}: {r}"))
        if not (-S <= p <= 1 + S):
            msgs.append(("prob-range", f"{kind}.predict_rank prob[{i}] = {p!r} outside [0,1]"))
    if msgs:
        return msgs
    for a in range(n):
        for c in range(n):
            if probs[a] > probs[c] and not ranks[a] < ranks[c]:
                msgs.append(("order", f"{kind}.predict_rank: team {a} has larger probability than team {c} ({probs[a]!r} > {probs[c]!r}) but rank {ranks[a]} vs {ranks[c]}: {r}"))
            if probs[a] == probs[c] and ranks[a] != ranks[c]:
                msgs.append(("tie", f"{kind}.predict_rank: teams {a},{c} have equal probability {probs[a]!r} but ranks {ranks[a]} and {ranks[c]}: {r}"))
    best = max(range(n), key=lambda i: probs[i])
    if ranks[best] != 1:
        msgs.append(("best", f"{kind}.predict_rank: most likely team {best} has rank {ranks[best]}: {r}"))
    # input order: identical teams must carry identical pairs; distinct teams are identified through the closed form in C12
    for a in range(n):
        for c in range(a + 1, n):
            if game[a] == game[c] and abs(probs[a] - probs[c]) > S:
                msgs.append(("identical", f"{kind}.predict_rank: identical teams {a},{c} get probabilities {probs[a]!r}, {probs[c]!r}"))
    if n >= 3 and abs(sum(probs) + d - 1) > S * n:
        msgs.append(("sum", f"{kind}: sum of predict_rank probabilities {sum(probs)!r} + predict_draw {d!r} = {sum(probs) + d!r} != 1 for {game}"))
    if not msgs:
        al = lib.ratings_aliased(model, game)
        if al is not None:
            try:
                r2 = model.predict_rank(al)
            except Exception as e:
                return [("exc", f"{kind}.predict_rank raised {type(e).__name__} when identical teams are one list object: {e}")]
            if [k for k, _ in r2] != ranks or any(abs(p - q) > S for (_, p), q in zip(r2, probs)):
                msgs.append(("alias", f"{kind}.predict_rank = {r2} when identical teams are one list object in several slots, {r} otherwise"))
    return msgs[:4]


def units(ctx):
    us = [("g",) + u for u in pred.units(ctx)]
    for K in spaces.PREDK:
        us.append(("tie8", K))
    return us


def run_unit(unit, ctx):
    acc = core.Acc()
    if unit[0] == "tie8":
        cfg = spaces.config(unit[1])
        games = tie8(cfg)
    else:
        _, sp, K, k, parts = unit
        cfg = spaces.config(K)
        games = spaces.sharded(spaces.pred_games(sp, cfg), k, parts)
    for game in games:
        for kind in spaces.KINDS:
            acc.evals += 1
            distinct = any(T != game[0] for T in game)
            dup = any(game[i] == game[j] for i in range(len(game)) for j in range(i + 1, len(game)))
            if distinct or dup:
                acc.nontrivial += 1
            if dup and distinct:
                acc.add("games_with_exact_probability_ties")
            for what, msg in eval_case(kind, cfg, game):
                acc.violation(PID, f"{kind}:{what}:n{min(len(game), 3)}", msg, pred.case(cfg, game, kind))
        if unit[0] == "g" and unit[1] in ("G3", "G4") and len(game) >= 3:
            # near twins: the second team becomes a copy of the first whose first member's mu is ONE ULP higher - probabilities that differ
            # in the last bit or collapse to the same float, where a ranking computed from anything but the returned probabilities
            # (totals before a division, rounded values) disagrees with them
            (m0, s0), rest = game[0][0], list(game[0][1:])
            twin = [[(math.nextafter(m0, math.inf), s0)] + rest]
            g2 = [game[0]] + twin + list(game[2:])
            for kind in spaces.KINDS:
                acc.evals += 1
                acc.nontrivial += 1
                acc.add("near_twin_games")
                for what, msg in eval_case(kind, cfg, g2):
                    acc.violation(PID, f"{kind}:{what}:twin", msg, pred.case(cfg, g2, kind))
    acc.sample(pred.case(cfg, game))
    return acc


def replay(case):
    cfg, game = pred.uncase(case)
    return [m for _, m in eval_case(case["kind"], cfg, game)]


def main(ctx, t0):
    acc = core.run_units(units(ctx), run_unit, ctx)
    return core.finish(PID, ctx, LEVEL, acc, RULE, {"exhaustive": True, "plan": [f"{s}/{K}" for s, K in pred.plan_spaces(ctx)]}, ASSUMPTIONS, t0)


def replay_unit(unit, ctx):
    return run_unit(unit, ctx)
