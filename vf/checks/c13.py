"""C13 - malformed calls are rejected with TypeError/ValueError before any side effect; well-formed calls are
accepted.  Fault enumeration: a grammar of malformed arguments injected at every position of otherwise valid
calls, plus E2/I4 (rejected calls are self-loops in every reachable state)."""
import copy
import math
from decimal import Decimal
from fractions import Fraction

from vf import core, e2, spaces

PID = "C13"
LEVEL = "fault_enumeration"
RULE = ("base calls {rate, rate+ranks, rate+scores, predict_win, predict_draw, predict_rank} x shapes {1v1, 2v1, 1v2v1} x 5 classes "
        "x per-call options {none, tau+limit_sigma}; fault grammar injected at EVERY position: teams <- 13 wrong containers; team i <- 8 "
        "wrong values; player (i,j) <- 14 wrong values incl. the four foreign classes' ratings; ranks/scores <- 11 wrong containers / "
        "lengths; element p of ranks/scores <- 10 non-numbers; both selectors (3 combinations); acceptance side: 16 well-formed "
        "typings of rank/score values and games of 257 and 300 teams must return normally.  Oracle: TypeError/ValueError only, never a return; every rating "
        "reachable from the arguments, the argument containers and model.__dict__ unchanged.  E2/I4: the 13 representative "
        "malformed calls are self-loops from every state reachable by one call of the reduced alphabet (thorough: by three calls of the small alphabet).  non-trivial = every injected fault "
        "(distinct by construction: op x shape x position x fault)")
ASSUMPTIONS = ["I4: falsy non-list selectors (0, '', (), None) count as 'not given'",
               "Decimal / Fraction / complex rank values are numbers of another kind: either a clean rejection or a normal return is accepted",
               "tau / limit_sigma arguments of wrong type are not in the statement"]

SHAPES = {"1v1": (1, 1), "2v1": (2, 1), "1v2v1": (1, 2, 1)}
OPS = ["rate", "rate+ranks", "rate+scores", "predict_win", "predict_draw", "predict_rank"]
OPTS = ["none", "opts"]


class Gen:
    """marker: build a fresh generator at call time"""

    def __init__(self, items):
        self.items = items


def mk_teams(model, shape):
    b = spaces.BETA0
    k = 0
    teams = []
    for sz in shape:
        T = []
        for _ in range(sz):
            T.append(model.rating((5 + k) * b, (0.01 + 0.5 * k) * b, f"p{k}"))
            k += 1
        teams.append(T)
    return teams


def foreign_rating(kind, which):
    others = [k for k in spaces.KINDS if k != kind]
    return spaces.model_class(others[which])().rating(25.0, 8.0, "foreign")


def team_rating_obj(kind, model):
    import importlib

    mod = importlib.import_module(spaces.model_class(kind).__module__)
    return getattr(mod, spaces.CLASSNAME[kind] + "TeamRating")(25.0, 64.0, [model.rating()], 0)


def faults(kind, op, shape):
    """yield (fid, expect, mutate) ; mutate(model, teams, kw) -> (teams_arg, kw) ; expect in {'reject','accept','either'}"""
    n = len(shape)
    is_rate = op.startswith("rate")
    # ---- teams container
    def T(name, fn):
        return (f"teams<-{name}", "reject", lambda m, t, kw: (fn(m, t), kw))

    yield T("None", lambda m, t: None)
    yield T("0", lambda m, t: 0)
    yield T("1.5", lambda m, t: 1.5)
    yield T("str", lambda m, t: "ab")
    yield T("bytes", lambda m, t: b"ab")
    yield T("tuple", lambda m, t: tuple(t))
    yield T("dict", lambda m, t: {i: x for i, x in enumerate(t)})
    yield T("dict_values", lambda m, t: {i: x for i, x in enumerate(t)}.values())
    yield T("frozenset", lambda m, t: frozenset(tuple(x) for x in t))
    yield T("generator", lambda m, t: Gen(t))
    yield T("rating", lambda m, t: t[0][0])
    yield T("empty", lambda m, t: [])
    yield T("one-team", lambda m, t: [t[0]])
    # ---- team i
    for i in range(n):
        def TI(name, fn, i=i):
            def mut(m, t, kw):
                t2 = list(t)
                t2[i] = fn(m, t)
                return t2, kw
            return (f"team[{i}]<-{name}", "reject", mut)

        yield TI("None", lambda m, t: None)
        yield TI("0", lambda m, t: 0)
        yield TI("str", lambda m, t: "a")
        yield TI("tuple", lambda m, t, i=i: tuple(t[i]))
        yield TI("empty", lambda m, t: [])
        yield TI("bare-rating", lambda m, t, i=i: t[i][0])
        yield TI("dict", lambda m, t, i=i: {0: t[i][0]})
        yield TI("nested", lambda m, t, i=i: [[t[i][0]]])
    # ---- player (i, j)
    for i in range(n):
        for j in range(shape[i]):
            def P(name, fn, i=i, j=j):
                def mut(m, t, kw):
                    t2 = [list(x) for x in t]
                    t2[i][j] = fn(m, t)
                    return t2, kw
                return (f"player[{i}][{j}]<-{name}", "reject", mut)

            yield P("None", lambda m, t: None)
            yield P("0", lambda m, t: 0)
            yield P("1.0", lambda m, t: 1.0)
            yield P("str", lambda m, t: "p")
            yield P("tuple", lambda m, t, i=i, j=j: (t[i][j].mu, t[i][j].sigma))
            yield P("list", lambda m, t, i=i, j=j: [t[i][j].mu, t[i][j].sigma])
            yield P("dict", lambda m, t, i=i, j=j: {"mu": t[i][j].mu, "sigma": t[i][j].sigma})
            for w in range(4):
                yield P(f"foreign{w}", lambda m, t, w=w: foreign_rating(kind, w))
            yield P("team-rating", lambda m, t: team_rating_obj(kind, m))
            yield P("model", lambda m, t: m)
            yield P("rating-class", lambda m, t: type(t[0][0]))
    if not is_rate:
        return
    # ---- selector containers / lengths
    sels = ["ranks", "scores"]
    base_vals = list(range(1, n + 1))
    for sel in sels:
        def S(name, val, sel=sel, expect="reject"):
            def mut(m, t, kw):
                kw2 = {k: v for k, v in kw.items() if k not in ("ranks", "scores")}
                kw2[sel] = val() if callable(val) else val
                return t, kw2
            return (f"{sel}<-{name}", expect, mut)

        yield S("tuple", tuple(base_vals))
        yield S("str", "12"[:n] if n <= 2 else "123")
        yield S("int", 5)
        yield S("float", 1.5)
        yield S("set", set(base_vals))
        yield S("dict", {i: v for i, v in enumerate(base_vals)})
        yield S("range", range(1, n + 1))
        yield S("generator", lambda: Gen(base_vals))
        yield S("short", base_vals[:-1])
        yield S("long", base_vals + [n + 1])
        if n > 2:
            yield S("len1", [1])
        # ---- elements
        for p in range(n):
            def E(name, val, expect="reject", sel=sel, p=p):
                def mut(m, t, kw):
                    kw2 = {k: v for k, v in kw.items() if k not in ("ranks", "scores")}
                    vals = list(base_vals)
                    vals[p] = val(m, t) if callable(val) else val
                    kw2[sel] = vals
                    return t, kw2
                return (f"{sel}[{p}]<-{name}", expect, mut)

            yield E("None", None)
            yield E("str-digit", "1")
            yield E("str-nan", "nan")
            yield E("bytes", b"1")
            yield E("list", [1])
            yield E("tuple", (1,))
            yield E("rating", lambda m, t: t[0][0])
            yield E("dict", {})
            yield E("complex", 1j, "either")
            yield E("Decimal", Decimal(1), "either")
            yield E("Fraction", Fraction(1, 2), "either")
    # ---- both selectors
    def B(name, r, s):
        def mut(m, t, kw):
            kw2 = {k: v for k, v in kw.items() if k not in ("ranks", "scores")}
            kw2["ranks"] = r
            kw2["scores"] = s
            return t, kw2
        return (f"both<-{name}", "reject", mut)

    yield B("valid+valid", list(base_vals), list(reversed(base_vals)))
    yield B("valid+malformed", list(base_vals), ["x"] * n)
    yield B("malformed+valid", [None] * n, list(base_vals))
    # ---- acceptance side: well-formed typings
    good = {
        "ints": [i for i in range(n)], "floats": [float(i) for i in range(n)], "bools": [bool(i % 2) for i in range(n)],
        "zeros": [0] * n, "zeros-float": [0.0] * n, "negatives": [-(i + 1) for i in range(n)], "neg-floats": [-1.5 * (i + 1) for i in range(n)],
        "mixed": [i if i % 2 else float(i) for i in range(n)], "huge-int": [10 ** 400 * (i + 1) for i in range(n)],
        "huge-neg-int": [-(10 ** 400) * (i + 1) for i in range(n)], "signed-zero": [-0.0 if i % 2 else 0 for i in range(n)],
        "inf": [math.inf if i == n - 1 else float(i) for i in range(n)], "-inf": [-math.inf if i == 0 else float(i) for i in range(n)],
        "tiny": [5e-324 * i for i in range(n)], "bool-int-mix": [True if i == 0 else i + 1 for i in range(n)], "big-float": [1e308 * (1 if i else -1) for i in range(n)],
    }
    for sel in sels:
        for name, vals in good.items():
            def mut(m, t, kw, sel=sel, vals=vals):
                kw2 = {k: v for k, v in kw.items() if k not in ("ranks", "scores")}
                kw2[sel] = list(vals)
                return t, kw2
            yield (f"{sel}<-good:{name}", "accept", mut)


def reachable_ratings(x, acc, depth=0):
    if depth > 5:
        return
    if hasattr(x, "mu") and hasattr(x, "sigma") and hasattr(x, "__dict__"):
        acc.append(x)
        return
    if isinstance(x, (list, tuple, set, frozenset)):
        for y in x:
            reachable_ratings(y, acc, depth + 1)
    elif isinstance(x, dict):
        for y in x.values():
            reachable_ratings(y, acc, depth + 1)
    elif isinstance(x, Gen):
        reachable_ratings(x.items, acc, depth + 1)
    elif hasattr(x, "team") and hasattr(x, "sigma_squared"):
        reachable_ratings(list(x.team), acc, depth + 1)


def shape_of(x, depth=0):
    """identity structure of the argument containers"""
    if depth > 5:
        return "…"
    if isinstance(x, (list, tuple)):
        return (type(x).__name__, tuple(shape_of(y, depth + 1) for y in x))
    if isinstance(x, dict):
        return ("dict", tuple((repr(k), shape_of(v, depth + 1)) for k, v in x.items()))
    if isinstance(x, (int, float, str, bytes, bool, type(None), complex, Decimal, Fraction)):
        return repr(x)
    return ("obj", id(x))


def materialise(x):
    if isinstance(x, Gen):
        return (y for y in x.items)
    return x


def execute(kind, op, shape_name, opt, fid):
    """Run one injected-fault call.  -> dict(expect, outcome in returned|rejected|other, exc (class name), desc, side (messages
    about side effects))"""
    shape = SHAPES[shape_name]
    n = len(shape)
    for (f, expect, mut) in faults(kind, op, shape):
        if f == fid:
            break
    else:
        raise core.HarnessError(f"unknown fault {fid}")
    model = spaces.model_class(kind)()
    teams = mk_teams(model, shape)
    kw = {}
    if op == "rate+ranks":
        kw["ranks"] = list(range(1, n + 1))
    elif op == "rate+scores":
        kw["scores"] = [10 - i for i in range(n)]
    if opt == "opts" and op.startswith("rate"):
        kw["tau"] = 0.5 * spaces.BETA0
        kw["limit_sigma"] = True
    targ, kw = mut(model, teams, kw)
    watched = []
    reachable_ratings(teams, watched)
    reachable_ratings(targ, watched)
    for v in kw.values():
        reachable_ratings(v, watched)
    snaps = [(o, dict(o.__dict__)) for o in watched]
    msnap = e2.snap_model(model)
    gsnap = e2.snap_globals()
    struct0 = (shape_of(targ), {k: shape_of(v) for k, v in kw.items()})
    call_kw = {k: materialise(v) for k, v in kw.items()}
    fn = getattr(model, "rate" if op.startswith("rate") else op)
    try:
        with core.watchdog():
            res = fn(materialise(targ), **call_kw)
        outcome = "returned"
    except (TypeError, ValueError) as e:
        outcome = "rejected"
        res = e
    except Exception as e:
        outcome = "other"
        res = e
    desc = f"{kind}.{op.split('+')[0]}({shape_name}; {fid}{'; tau, limit_sigma given' if opt == 'opts' else ''})"
    side = []
    for o, d0 in snaps:
        if o.__dict__ != d0:
            ch = {k: (d0.get(k), o.__dict__.get(k)) for k in set(d0) | set(o.__dict__) if d0.get(k) != o.__dict__.get(k)}
            side.append(f"modified rating {d0.get('name')!r}: {ch}")
            break
    if e2.snap_model(model) != msnap:
        side.append(f"modified the model: {e2.diff_snap(msnap, e2.snap_model(model))}")
    g1 = e2.snap_globals()
    if g1 != gsnap and outcome != "returned":
        side.append(f"modified class / module level state: {[(a, b) for a, b in zip(gsnap, g1) if a != b][:2]}")
    if (shape_of(targ), {k: shape_of(v) for k, v in kw.items()}) != struct0:
        side.append("modified its argument containers")
    return {"expect": expect, "outcome": outcome, "exc": type(res).__name__ if outcome != "returned" else None,
            "res": str(res)[:160], "desc": desc, "side": side}


def eval_case(kind, op, shape_name, opt, fid):
    x = execute(kind, op, shape_name, opt, fid)
    expect, outcome, desc = x["expect"], x["outcome"], x["desc"]
    msgs = []
    if expect == "accept":
        if outcome != "returned":
            msgs.append(f"well-formed call {desc} raised {x['exc']}: {x['res']}")
        return msgs
    if outcome == "other":
        msgs.append(f"malformed call {desc} raised {x['exc']} (neither TypeError nor ValueError): {x['res']}")
    elif outcome == "returned":
        if expect == "reject":
            msgs.append(f"malformed call {desc} returned normally: {x['res'][:120]}")
        else:
            return msgs  # a number type the library chose to support: fine
    for sd in x["side"]:
        msgs.append(f"rejected call {desc} {sd}")
    return msgs


BIG_N = (257, 300)  # team counts beyond CPython's small-int cache and beyond anything the suite rates


def eval_big(kind, n, sel):
    model = spaces.model_class(kind)()
    teams = [[model.rating()] for _ in range(n)]
    vals = [(i * 7) % n for i in range(n)] if sel != "omitted" else None
    try:
        with core.watchdog(120):
            if sel == "ranks":
                out = model.rate(teams, ranks=vals)
            elif sel == "scores":
                out = model.rate(teams, scores=[float(v) for v in vals])
            else:
                out = model.rate(teams)
    except Exception as e:
        return [f"well-formed call {kind}.rate({n} single-player teams, {sel}) raised {type(e).__name__}: {str(e)[:160]}"]
    if len(out) != n:
        return [f"{kind}.rate({n} teams) returned {len(out)} teams"]
    return []


def units(ctx):
    return ([(kind, op) for kind in spaces.KINDS for op in OPS] + [("e2", kind) for kind in spaces.KINDS]
            + [(kind, "big", n, sel) for kind in spaces.KINDS for n in BIG_N for sel in ("ranks", "scores", "omitted")])


def fault_class(fid):
    head, _, name = fid.partition("<-")
    head = head.split("[")[0]
    return f"{head}<-{name.split(':')[0].rstrip('0123')}"


def run_unit(unit, ctx):
    acc = core.Acc()
    if unit[0] == "e2":
        return acc
    if unit[1] == "big":
        kind, _, n, sel = unit
        acc.evals += 1
        acc.nontrivial += 1
        for msg in eval_big(kind, n, sel):
            acc.violation(PID, f"{kind}:rate:big-accept", msg, {"kind": kind, "big": n, "sel": sel})
        return acc
    kind, op = unit
    for shape_name, shape in SHAPES.items():
        for opt in (OPTS if op.startswith("rate") else OPTS[:1]):
            for (fid, expect, _) in faults(kind, op, shape):
                acc.evals += 1
                acc.nontrivial += 1
                acc.add(f"expect:{expect}")
                for msg in eval_case(kind, op, shape_name, opt, fid):
                    acc.violation(PID, f"{kind}:{op.split('+')[0]}:{fault_class(fid)}", msg,
                                  {"kind": kind, "op": op, "shape": shape_name, "opt": opt, "fid": fid})
    acc.sample({"kind": kind, "op": op, "shape": "1v2v1", "fault": fid, "expect": expect})
    return acc


def replay(case):
    if "big" in case:
        return eval_big(case["kind"], case["big"], case["sel"])
    if case.get("engine") == "E2":
        core.deterministic_ids(0)
        return e2.replay(case)
    return eval_case(case["kind"], case["op"], case["shape"], case["opt"], case["fid"])


def main(ctx, t0):
    acc = core.run_units([u for u in units(ctx) if u[0] != "e2"], run_unit, ctx)
    core.deterministic_ids(0)
    searches = [(k, c, "reduced") for k in spaces.KINDS for c in (("default", "limit") if ctx.thorough else ("default",))]
    stats, a2 = e2.explore(searches, 2, ctx, chunk=16, invs=("I4",))
    if ctx.thorough:  # deeper histories over the small alphabet (depth 4: every state reachable by three calls is expanded)
        deep = [(k, c, "small") for (k, c, _) in searches]
        stats_d, a2d = e2.explore(deep, 4, ctx, chunk=64, invs=("I4",))
        stats.update(stats_d)
        a2.merge(a2d)
    n_i4 = 0
    for v in a2.violations:
        if v["case"]["inv"] == "I4":
            v["property"] = PID
            v["key"] = "E2:" + v["key"]
            v["case"]["engine"] = "E2"
            acc.violations.append(v)
    n_i4 = sum(c for k, c in a2.count.items() if k.startswith("viol:I4"))
    acc.viol_count += n_i4
    for k, c in a2.count.items():
        if k.startswith("viol:I4"):
            acc.count[k] = c
    tr = sum(s["transitions"] for s in stats.values())
    nbad = len(e2.BAD)
    extra = {"exhaustive": True, "e2_states": sum(s["states"] for s in stats.values()), "e2_transitions": tr,
             "e2_rejected_call_transitions": sum((s["transitions"] // s["ops"]) * nbad for s in stats.values()),
             "fault_grammar_sizes": {f"{op}/{sn}": sum(1 for _ in faults("PL", op, sh)) for op in OPS for sn, sh in SHAPES.items()}}
    acc.evals += extra["e2_rejected_call_transitions"]
    return core.finish(PID, ctx, LEVEL, acc, RULE, extra, ASSUMPTIONS, t0)


def replay_unit(unit, ctx):
    if unit and isinstance(unit[0], (list, tuple)):  # an E2 expansion unit
        core.deterministic_ids(0)
        acc = e2._expand(unit, ctx)
        for v in acc.violations:
            v["key"] = "E2:" + v["key"]
        return acc
    return run_unit(unit, ctx)
